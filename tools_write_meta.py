#!/usr/bin/env python3
"""tools_write_meta.py <wave> <letters> <eval-output-files...>: writes seeded/<id>-<L>/meta.json for the changes of one
wave from their .confirm files, the evaluation lines (tools_eval_seeded.sh) and the wave's table in DESIGN.md."""
import sys, json, os, re, glob
wave, letters, files = int(sys.argv[1]), sys.argv[2], sys.argv[3:]
ev = {}
for f in files:
    for l in open(f):
        m = re.match(r'(\S+) caught_rc=(\d*) tier=(\w+) \| ?(.*)', l.strip())
        if m:
            ev[m.group(1)] = m.groups()[1:]
design = open('/verif/DESIGN.md').read()
i = design.index('**Wave %d**' % wave)
j = design.find('**Wave %d**' % (wave + 1), i)
if j < 0:
    j = design.index('**Final re-evaluation**', i)
strength = {}
for l in design[i:j].splitlines():
    if not l.startswith('| C'):
        continue
    cells = [c.strip() for c in l.strip('|').split('|')]
    for ident in cells[0].replace('✚', '').split(','):
        strength[ident.strip()] = cells[2] if '✚' in cells[0] else ''
for d in sorted(glob.glob('/verif/seeded/C??-[%s]' % letters)):
    name = os.path.basename(d)
    conf = open(d + '/.confirm').read().split()
    pkg, tests = conf[3], conf[4]
    rc, tier, sigs = ev.get(name, ('', '', ''))
    meta = {
        "property": name[:3], "wave": wave,
        "origin": "written by a fresh sub-agent that was given only the property text, the list of ideas used in earlier waves, and a scratch worktree",
        "needs_to_manifest": "see NOTES_from_author.md (section for mutant %s)" % name[-1],
        "demonstration": {"file": "demo_test.go", "package_dir": pkg,
                          "run": "copy into %s/ (plus the *harness*_test.go files kept here) and run inside `unshare -n`: go test -vet=off -count=1 -run '^(%s)$' ./%s/" % (pkg, tests, pkg)},
        "confirmed": {"demo_passes_on_unchanged_tree": conf[0] == '0', "existing_suite_passes_with_change": conf[1] == '0',
                      "demo_fails_with_change": conf[2] != '0', "how": "tools_confirm_seeded.sh: scratch copy of /repo, tests inside `unshare -n`"},
        "detected_by": {"check": name[:3], "tier": tier, "exit": int(rc) if rc else None, "signatures": sigs},
        "check_strengthened_to_catch_it": strength.get(name, ''),
    }
    json.dump(meta, open(d + '/meta.json', 'w'), indent=1, ensure_ascii=False)
    print(name, rc, tier)
