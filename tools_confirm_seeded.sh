#!/bin/bash
# tools_confirm_seeded.sh <srcdir> <Cxx> <letters...>
# For each sub-agent change <srcdir>/<Cxx>/mutant<L>.diff with demo<L>_test.go, confirm independently in a
# scratch copy of /repo: (a) the demonstration passes on the unchanged tree, (b) the existing suite passes
# with the change, (c) the demonstration fails with the change. Writes /verif/seeded/<Cxx>-<L>/ (patch,
# demonstration, .confirm). The suite binds fixed ports: everything runs inside `unshare -n`.
export GOFLAGS=-mod=mod GOPROXY=off GOTOOLCHAIN=local
src=$1; id=$2; shift; shift
for L in "$@"; do
  d=$src/$id/mutant$L.diff; demo=$src/$id/demo${L}_test.go
  [ -f "$d" ] && [ -f "$demo" ] || { echo "$id $L missing"; continue; }
  S=$(mktemp -d /var/tmp/conf.XXXXXX)
  rsync -a --exclude .git /repo/ $S/repo/
  pkg=$(grep -m1 "^package " $demo | tr -d '\r' | awk '{print $2}' | sed 's/_test$//')
  [ -d "$S/repo/$pkg" ] || pkg=$(grep -o "\./[a-z]*/" $src/$id/NOTES.md | head -1 | tr -d './')
  tests=$(grep -o "^func Test[A-Za-z0-9_]*" $demo | sed 's/func //' | paste -sd'|')
  pkgline=$(grep -m1 "^package " $demo | tr -d '\r')
  # helper files belong to one demonstration package each: copy those whose package clause matches; a helper
  # named after the other letter (demoD_harness for C) is left out
  helpers() { for extra in $src/$id/*harness*_test.go; do [ -f "$extra" ] || continue; [ "$(grep -m1 '^package ' $extra | tr -d '\r')" = "$pkgline" ] || continue; case "$(basename $extra)" in demo[A-Z]_*) [ "$(basename $extra | cut -c5)" = "$L" ] || continue;; esac; echo $extra; done; }
  put() { cp $demo $S/repo/$pkg/zz_demo${L}_test.go; for extra in $(helpers); do cp $extra $S/repo/$pkg/; done; }
  run() { (cd $S/repo && timeout 900 unshare -n sh -c "ip link set lo up; go1.26.8 test -vet=off -count=1 -run '^($tests)\$' ./$pkg/" > $S/demo.log 2>&1); echo $?; }
  put; clean=$(run)
  (cd $S/repo && git apply --whitespace=nowarn $d) || { echo "$id $L apply-failed"; rm -rf $S; continue; }
  (cd $S/repo && rm -f $pkg/zz_demo${L}_test.go $pkg/*harness*_test.go 2>/dev/null; timeout 1500 unshare -n sh -c "ip link set lo up; go1.26.8 build ./... && go1.26.8 test -vet=off -count=1 ./..." > $S/suite.log 2>&1); suite=$?
  if [ $suite -ne 0 ]; then (cd $S/repo && timeout 1500 unshare -n sh -c "ip link set lo up; go1.26.8 test -vet=off -count=1 ./..." > $S/suite.log 2>&1); suite=$?; fi
  put; mut=$(run)
  echo "$id $L pkg=$pkg demo_on_clean_rc=$clean suite_with_mutant_rc=$suite demo_with_mutant_rc=$mut"
  if [ "$clean" = 0 ] && [ "$suite" = 0 ] && [ "$mut" != 0 ]; then
    out=${SEEDED_OUT:-/verif/seeded}/$id-$L; mkdir -p $out
    cp $d $out/patch.diff; cp $demo $out/demo_test.go; cp $src/$id/NOTES.md $out/NOTES_from_author.md
    for extra in $(helpers); do cp $extra $out/; done
    echo "$clean $suite $mut $pkg $tests" > $out/.confirm
  else
    echo "$id $L NOT CONFIRMED (kept out of seeded/)"; tail -n 5 $S/demo.log $S/suite.log | cut -c1-200
  fi
  rm -rf $S
done
