#!/bin/bash
# ./run_all.sh <quick|thorough> [seed]  — runs every claimed check, prints one summary line each
tier=${1:-quick}; seed=${2:-1}
cd "$(dirname "$0")"
for p in $(python3 -c "import json;print(' '.join(c['property_id'] for c in json.load(open('MANIFEST.json'))['checks']))"); do
  start=$(date +%s)
  VERIF_SEED=$seed ./check $p $tier > /tmp/run_all_$p.log 2>&1; rc=$?
  echo "$p $tier seed=$seed rc=$rc $(( $(date +%s)-start ))s $(grep -c '^VIOLATION' /tmp/run_all_$p.log) violations $(grep -c '^KNOWN-FINDING' /tmp/run_all_$p.log) known | $(tail -1 /tmp/run_all_$p.log | cut -c1-120)"
done
