// vsinstr rewrites the non-test Go files of the given package directories so
// that mutex operations, atomics and the wall clock go through the simulation
// kernel (package vs). It is applied to a scratch copy of the repository only.
//
//	X.Lock()            -> vs.Lock(X.TryLock, X.Lock)
//	X.RLock()           -> vs.Lock(X.TryRLock, X.RLock)
//	X.Unlock()/RUnlock  -> vs.Unlock(X.Unlock)
//	time.Now/Since/Until/Sleep/After/NewTimer -> vs.*
//	for cond { }        -> for cond { vs.Yield() }
//	statement containing a sync/atomic call or an atomic-method call
//	(Load/Store/Add/Swap/CompareAndSwap) -> preceded by vs.Yield()
//
// All rewrites are syntactic and only ever add pre-emption points or redirect
// to behaviour-identical wrappers; outside a simulation the wrappers fall
// through to the original operation.
package main

import (
	"bytes"
	"fmt"
	"go/ast"
	"go/format"
	"go/parser"
	"go/token"
	"os"
	"path/filepath"
	"strings"
)

const vsPath = "gitee.com/Trisia/gotlcp/vs"

var stats = map[string]int{}

func main() {
	for _, dir := range os.Args[1:] {
		files, _ := filepath.Glob(filepath.Join(dir, "*.go"))
		for _, f := range files {
			if strings.HasSuffix(f, "_test.go") {
				continue
			}
			if err := rewrite(f); err != nil {
				fmt.Fprintln(os.Stderr, "vsinstr:", f, err)
				os.Exit(2)
			}
		}
	}
	fmt.Printf("vsinstr: lock=%d unlock=%d time=%d spin=%d atomic=%d\n", stats["lock"], stats["unlock"], stats["time"], stats["spin"], stats["atomic"])
}

func sel(x ast.Expr, name string) *ast.SelectorExpr {
	return &ast.SelectorExpr{X: x, Sel: ast.NewIdent(name)}
}
func vs(name string) ast.Expr { return sel(ast.NewIdent("vs"), name) }

func yieldStmt() ast.Stmt { return &ast.ExprStmt{X: &ast.CallExpr{Fun: vs("Yield")}} }

var atomicMethods = map[string]bool{"Load": true, "Store": true, "Add": true, "Swap": true, "CompareAndSwap": true, "And": true, "Or": true}

func rewrite(path string) error {
	fset := token.NewFileSet()
	f, err := parser.ParseFile(fset, path, nil, parser.ParseComments)
	if err != nil {
		return err
	}
	timeName, atomicName := "", ""
	for _, im := range f.Imports {
		p := strings.Trim(im.Path.Value, `"`)
		n := filepath.Base(p)
		if im.Name != nil {
			n = im.Name.Name
		}
		if p == "time" {
			timeName = n
		}
		if p == "sync/atomic" {
			atomicName = n
		}
	}
	changed := false

	// does the expression tree (not descending into function literals) contain an atomic operation?
	hasAtomic := func(n ast.Node) bool {
		found := false
		ast.Inspect(n, func(m ast.Node) bool {
			if found {
				return false
			}
			switch x := m.(type) {
			case *ast.FuncLit:
				return false
			case *ast.BlockStmt:
				return false
			case *ast.CallExpr:
				if s, ok := x.Fun.(*ast.SelectorExpr); ok {
					if id, ok := s.X.(*ast.Ident); ok && atomicName != "" && id.Name == atomicName && id.Obj == nil {
						found = true
						return false
					}
					if atomicMethods[s.Sel.Name] {
						// method-style atomics: receiver must be a field/selector chain, e.g. c.hsState.Load()
						if _, ok := s.X.(*ast.SelectorExpr); ok {
							found = true
							return false
						}
					}
				}
			}
			return true
		})
		return found
	}
	stmtHead := func(s ast.Stmt) bool {
		switch x := s.(type) {
		case *ast.ExprStmt:
			return hasAtomic(x.X)
		case *ast.AssignStmt:
			for _, r := range x.Rhs {
				if hasAtomic(r) {
					return true
				}
			}
		case *ast.IfStmt:
			if x.Init != nil && stmtHeadInit(x.Init, hasAtomic) {
				return true
			}
			return x.Cond != nil && hasAtomic(x.Cond)
		case *ast.ReturnStmt:
			for _, r := range x.Results {
				if hasAtomic(r) {
					return true
				}
			}
		case *ast.DeferStmt:
			return false
		case *ast.SwitchStmt:
			return x.Tag != nil && hasAtomic(x.Tag)
		}
		return false
	}
	var fixList func(list []ast.Stmt) []ast.Stmt
	fixList = func(list []ast.Stmt) []ast.Stmt {
		out := make([]ast.Stmt, 0, len(list))
		for _, s := range list {
			if stmtHead(s) {
				out = append(out, yieldStmt())
				stats["atomic"]++
				changed = true
			}
			out = append(out, s)
		}
		return out
	}

	ast.Inspect(f, func(n ast.Node) bool {
		switch x := n.(type) {
		case *ast.BlockStmt:
			x.List = fixList(x.List)
		case *ast.CaseClause:
			x.Body = fixList(x.Body)
		case *ast.CommClause:
			x.Body = fixList(x.Body)
		case *ast.ForStmt:
			if x.Body != nil && x.Cond != nil && (len(x.Body.List) == 0 || hasAtomic(x.Cond)) {
				x.Body.List = append([]ast.Stmt{yieldStmt()}, x.Body.List...)
				stats["spin"]++
				changed = true
			}
		case *ast.CallExpr:
			if s, ok := x.Fun.(*ast.SelectorExpr); ok && len(x.Args) == 0 {
				switch s.Sel.Name {
				case "Lock":
					x.Fun, x.Args = vs("Lock"), []ast.Expr{sel(s.X, "TryLock"), sel(s.X, "Lock")}
					stats["lock"]++
					changed = true
				case "RLock":
					x.Fun, x.Args = vs("Lock"), []ast.Expr{sel(s.X, "TryRLock"), sel(s.X, "RLock")}
					stats["lock"]++
					changed = true
				case "Unlock", "RUnlock":
					x.Fun, x.Args = vs("Unlock"), []ast.Expr{sel(s.X, s.Sel.Name)}
					stats["unlock"]++
					changed = true
				}
			}
		case *ast.SelectorExpr:
			if id, ok := x.X.(*ast.Ident); ok && timeName != "" && id.Name == timeName && id.Obj == nil {
				switch x.Sel.Name {
				case "Now", "Since", "Until", "NewTimer", "Sleep", "After":
					id.Name = "vs"
					stats["time"]++
					changed = true
				}
			}
		}
		return true
	})
	if !changed {
		return nil
	}
	f.Decls = append([]ast.Decl{&ast.GenDecl{Tok: token.IMPORT, Specs: []ast.Spec{&ast.ImportSpec{Name: ast.NewIdent("vs"), Path: &ast.BasicLit{Kind: token.STRING, Value: `"` + vsPath + `"`}}}}}, f.Decls...)
	var buf bytes.Buffer
	if err := format.Node(&buf, fset, f); err != nil {
		return err
	}
	out := buf.String()
	if timeName != "" {
		out += "\nvar _ = " + timeName + ".Second\n"
	}
	if atomicName != "" {
		out += "\nvar _ " + atomicName + ".Int32\n"
	}
	out += "\nvar _ = vs.Yield\n"
	return os.WriteFile(path, []byte(out), 0644)
}

func stmtHeadInit(s ast.Stmt, hasAtomic func(ast.Node) bool) bool {
	switch x := s.(type) {
	case *ast.AssignStmt:
		for _, r := range x.Rhs {
			if hasAtomic(r) {
				return true
			}
		}
	case *ast.ExprStmt:
		return hasAtomic(x.X)
	}
	return false
}
