// simcheck runs one property's simulated cases on a pool of worker processes,
// aggregates coverage into the evidence file, minimises violations, writes
// replay files and matches them against the committed known findings.
package main

import (
	"bufio"
	"encoding/json"
	"flag"
	"fmt"
	"os"
	"os/exec"
	"path/filepath"
	"runtime"
	"sort"
	"strconv"
	"strings"
	"sync"
	"time"

	"verifsim/props"
)

var (
	fProp     = flag.String("prop", "", "property id")
	fTier     = flag.String("tier", "quick", "quick|thorough")
	fSeed     = flag.Uint64("seed", 1, "VERIF_SEED")
	fEvidence = flag.String("evidence", "", "evidence file to write")
	fReplayD  = flag.String("replaydir", "", "directory for replay files")
	fKnown    = flag.String("known", "", "known_findings.json")
	fWorkers  = flag.Int("workers", 0, "worker processes (default: number of CPUs)")
	fWorker   = flag.String("worker", "", "internal: shard i/n")
	fFrom     = flag.Int("from", 0, "internal: first index for this worker")
	fReplay   = flag.String("replay", "", "replay one case file")
	fShrink   = flag.String("shrink", "", "minimise one case file")
	fCount    = flag.Int("count", 0, "override number of cases")
	fDump     = flag.Bool("dump", false, "print every result line")
	fOnly     = flag.Int("only", -1, "run only case index i (in-process) and print the result")
	fList     = flag.Bool("list", false, "list registered properties")
)

// memGuard stops a process whose memory runs away (a generator or harness bug) before the machine suffers.
func memGuard() {
	go func() {
		var m runtime.MemStats
		for {
			time.Sleep(time.Second)
			runtime.ReadMemStats(&m)
			if m.Sys > 12<<30 {
				fmt.Fprintf(os.Stderr, "simcheck: memory guard: %d MiB in use, giving up (infrastructure)\n", m.Sys>>20)
				os.Exit(2)
			}
		}
	}()
}

func main() {
	flag.Parse()
	memGuard()
	if *fList {
		fmt.Println(strings.Join(props.IDs(), " "))
		return
	}
	p := props.Get(*fProp)
	if p == nil {
		fmt.Fprintf(os.Stderr, "simcheck: unknown property %q (have %v)\n", *fProp, props.IDs())
		os.Exit(2)
	}
	switch {
	case *fWorker != "":
		worker(p)
	case *fReplay != "":
		os.Exit(replay(p, *fReplay))
	case *fShrink != "":
		os.Exit(shrinkFile(p, *fShrink))
	case *fOnly >= 0:
		c := p.Make(*fTier, *fSeed, *fOnly)
		r := props.Execute(p, c, false, false)
		b, _ := json.MarshalIndent(r, "", " ")
		fmt.Println(string(b))
	default:
		os.Exit(run(p))
	}
}

// ---------------------------------------------------------------------------
// worker

type raceWatch struct {
	path string
	off  int64
}

func newRaceWatch() *raceWatch {
	g := os.Getenv("GORACE")
	for _, f := range strings.Fields(g) {
		if strings.HasPrefix(f, "log_path=") {
			return &raceWatch{path: strings.TrimPrefix(f, "log_path=") + "." + strconv.Itoa(os.Getpid())}
		}
	}
	return nil
}

func (w *raceWatch) poll() string {
	if w == nil {
		return ""
	}
	b, err := os.ReadFile(w.path)
	if err != nil || int64(len(b)) <= w.off {
		return ""
	}
	s := string(b[w.off:])
	w.off = int64(len(b))
	return s
}

// raceSig builds a canonical signature from a race report: the top library
// frames of the two conflicting accesses.
func raceSig(rep string) string {
	var tops []string
	lines := strings.Split(rep, "\n")
	for i, l := range lines {
		if (strings.Contains(l, " at 0x") && strings.Contains(l, "by goroutine")) || strings.Contains(l, "by main goroutine") {
			if !(strings.HasPrefix(strings.TrimSpace(l), "Read") || strings.HasPrefix(strings.TrimSpace(l), "Write") || strings.HasPrefix(strings.TrimSpace(l), "Previous")) {
				continue
			}
			for j := i + 1; j < len(lines) && strings.TrimSpace(lines[j]) != ""; j++ {
				f := strings.TrimSpace(lines[j])
				if strings.HasPrefix(f, "gitee.com/Trisia/gotlcp/") && !strings.HasPrefix(f, "gitee.com/Trisia/gotlcp/vs.") {
					f = strings.TrimPrefix(f, "gitee.com/Trisia/gotlcp/")
					if k := strings.LastIndex(f, "("); k > 0 {
						f = f[:k]
					}
					tops = append(tops, f)
					break
				}
			}
			if len(tops) == 2 {
				break
			}
		}
	}
	sort.Strings(tops)
	return "race " + strings.Join(tops, " / ")
}

func worker(p props.Prop) {
	var wi, wn int
	fmt.Sscanf(*fWorker, "%d/%d", &wi, &wn)
	n := p.Count(*fTier)
	if *fCount > 0 {
		n = *fCount
	}
	rw := newRaceWatch()
	out := bufio.NewWriter(os.Stdout)
	defer out.Flush()
	enc := json.NewEncoder(out)
	samples := 0
	for i := wi; i < n; i += wn {
		if i < *fFrom {
			continue
		}
		c := p.Make(*fTier, *fSeed, i)
		r := props.Execute(p, c, false, false)
		if rep := rw.poll(); rep != "" {
			r.RaceBytes = len(rep)
			r.V = append(r.V, props.Violation{Class: "data-race", Sig: p.ID() + " " + raceSig(rep), Detail: clip(rep, 6000)})
		}
		if len(r.V) == 0 && r.Infra == "" {
			r.Tape = nil
			if samples >= 2 {
				r.Sample = nil
			}
			samples++
		}
		if err := enc.Encode(r); err != nil {
			fmt.Fprintln(os.Stderr, "worker encode:", err)
			os.Exit(2)
		}
		out.Flush()
		if isHang(r) {
			// a task is still running somewhere in this process: it cannot be reused
			os.Exit(3)
		}
	}
}

func clip(s string, n int) string {
	if len(s) > n {
		return s[:n] + "..."
	}
	return s
}

// ---------------------------------------------------------------------------
// known findings

type finding struct {
	Property string `json:"property"`
	Sig      string `json:"sig"`
	Status   string `json:"status"` // known | fixed
	Commit   string `json:"commit,omitempty"`
	What     string `json:"what"`
}

type knownFile struct {
	Findings []finding `json:"findings"`
}

func loadKnown(path string) []finding {
	if path == "" {
		return nil
	}
	b, err := os.ReadFile(path)
	if err != nil {
		return nil
	}
	var k knownFile
	if err := json.Unmarshal(b, &k); err != nil {
		fmt.Fprintln(os.Stderr, "simcheck: cannot parse", path, err)
		os.Exit(2)
	}
	return k.Findings
}

func matchKnown(fs []finding, prop, sig string) *finding {
	for i := range fs {
		f := &fs[i]
		if f.Property != prop || f.Status != "known" {
			continue
		}
		if f.Sig == sig || (strings.HasSuffix(f.Sig, "*") && strings.HasPrefix(sig, strings.TrimSuffix(f.Sig, "*"))) {
			return f
		}
	}
	return nil
}

// ---------------------------------------------------------------------------
// driver

type agg struct {
	mu        sync.Mutex
	evals     int
	keys      map[string]bool
	traces    map[string]bool
	outcomes  map[string]int
	stats     map[string]int
	simNs     int64
	steps     int64
	trivial   int
	samples   []interface{}
	viol      []*props.Result
	infra     []*props.Result
	wallUs    int64
	raceBytes int
}

func run(p props.Prop) int {
	t0 := time.Now()
	nw := *fWorkers
	if nw <= 0 {
		nw = runtime.NumCPU()
	}
	n := p.Count(*fTier)
	if *fCount > 0 {
		n = *fCount
	}
	if nw > n {
		nw = n
	}
	a := &agg{keys: map[string]bool{}, traces: map[string]bool{}, outcomes: map[string]int{}, stats: map[string]int{}}
	tmp, err := os.MkdirTemp("/var/tmp", "simcheck-race-")
	if err != nil {
		fmt.Fprintln(os.Stderr, err)
		return 2
	}
	defer os.RemoveAll(tmp)
	fmt.Printf("simcheck: property=%s tier=%s seed=%d cases=%d workers=%d\n", p.ID(), *fTier, *fSeed, n, nw)
	var wg sync.WaitGroup
	infraExit := false
	for w := 0; w < nw; w++ {
		wg.Add(1)
		go func(w int) {
			defer wg.Done()
			from := 0
			for attempt := 0; attempt < 6; attempt++ { // a worker that has met six cases that never yield stops: the finding is established
				last, code := runWorker(p, w, nw, from, n, tmp, a)
				if code == 0 {
					return
				}
				if code == 3 && last >= 0 {
					from = last + 1
					continue
				}
				a.mu.Lock()
				infraExit = true
				a.mu.Unlock()
				fmt.Fprintf(os.Stderr, "simcheck: worker %d exited with code %d after case %d\n", w, code, last)
				return
			}
		}(w)
	}
	wg.Wait()
	wall := time.Since(t0).Seconds()

	// A watchdog expiry depends on wall-clock time and is the one observation that is not a function
	// of the tape: confirm it by re-running the case in a fresh process (twice the patience) and keep
	// it only if it happens again.
	a.viol, a.infra = confirmHangs(p, a.viol, a.infra, a)
	known := loadKnown(*fKnown)
	exit := 0
	if infraExit || len(a.infra) > 0 {
		exit = 2
		for i, r := range a.infra {
			if i < 5 {
				fmt.Printf("INFRA case=%d %s\n", r.Index, r.Infra)
			}
		}
	}
	// violations: group by signature, minimise one representative per signature
	bySig := map[string][]*props.Result{}
	var sigs []string
	for _, r := range a.viol {
		for _, v := range r.V {
			if _, ok := bySig[v.Sig]; !ok {
				sigs = append(sigs, v.Sig)
			}
			bySig[v.Sig] = append(bySig[v.Sig], r)
		}
	}
	sort.Strings(sigs)
	unknown := 0
	knownHit := map[string]int{}
	for _, sig := range sigs {
		rs := bySig[sig]
		sort.Slice(rs, func(i, j int) bool { return len(rs[i].Tape) < len(rs[j].Tape) })
		if f := matchKnown(known, p.ID(), sig); f != nil {
			knownHit[f.Sig] += len(rs)
			continue
		}
		unknown++
		if unknown > 8 {
			if unknown < 40 {
				fmt.Printf("VIOLATION property=%s replay=(not minimised: more than 8 distinct signatures) sig=%q cases=%d\n", p.ID(), sig, len(rs))
			}
			continue
		}
		path := reportViolation(p, rs[0], sig)
		fmt.Printf("VIOLATION property=%s replay=%s\n", p.ID(), path)
		fmt.Printf("  sig: %s\n  cases with this signature: %d (first index %d)\n", sig, len(rs), rs[0].Index)
		for _, v := range rs[0].V {
			if v.Sig == sig {
				fmt.Printf("  detail: %s\n", clip(v.Detail, 1500))
				break
			}
		}
		exit1(&exit)
	}
	for _, f := range known {
		if f.Property == p.ID() && f.Status == "known" && knownHit[f.Sig] > 0 {
			fmt.Printf("KNOWN-FINDING: property=%s %s (sig %q, %d cases this run)\n", p.ID(), f.What, f.Sig, knownHit[f.Sig])
		}
	}
	writeEvidence(p, a, wall, len(sigs), unknown, knownHit)
	fmt.Printf("simcheck: %s %s: evaluations=%d distinct=%d failing-signatures=%d unlisted=%d wall=%.1fs\n", p.ID(), *fTier, a.evals, len(a.keys), len(sigs), unknown, wall)
	return exit
}

func isHang(r *props.Result) bool {
	if strings.Contains(r.Infra, "watchdog") {
		return true
	}
	for _, v := range r.V {
		if v.Class == "spin" {
			return true
		}
	}
	return false
}

func confirmHangs(p props.Prop, viol, infra []*props.Result, a *agg) ([]*props.Result, []*props.Result) {
	recheck := func(r *props.Result) bool {
		exe, _ := os.Executable()
		cmd := exec.Command(exe, "-prop", p.ID(), "-tier", *fTier, "-seed", strconv.FormatUint(*fSeed, 10), "-only", strconv.Itoa(r.Index))
		cmd.Env = append(os.Environ(), "VERIF_PATIENCE=3")
		out, _ := cmd.Output()
		var r2 props.Result
		if json.Unmarshal(out, &r2) != nil {
			return true
		}
		return isHang(&r2)
	}
	// re-execute the expiries, eight at a time; once three have reproduced the phenomenon is established and the
	// remaining ones (each costs up to three watchdog periods) are taken as confirmed
	var hangs []*props.Result
	for _, r := range append(append([]*props.Result{}, viol...), infra...) {
		if isHang(r) {
			hangs = append(hangs, r)
		}
	}
	spurious := map[*props.Result]bool{}
	confirmed := 0
	for at := 0; at < len(hangs) && confirmed < 3; at += 8 {
		end := at + 8
		if end > len(hangs) {
			end = len(hangs)
		}
		res := make([]bool, end-at)
		var wg sync.WaitGroup
		for k := at; k < end; k++ {
			wg.Add(1)
			go func(k int) { defer wg.Done(); res[k-at] = recheck(hangs[k]) }(k)
		}
		wg.Wait()
		for k, ok := range res {
			if ok {
				confirmed++
			} else {
				spurious[hangs[at+k]] = true
			}
		}
	}
	var v2, i2 []*props.Result
	for _, r := range viol {
		if spurious[r] {
			a.stats["watchdog_expiry_not_reproduced"]++
			continue
		}
		v2 = append(v2, r)
	}
	for _, r := range infra {
		if spurious[r] {
			a.stats["watchdog_expiry_not_reproduced"]++
			continue
		}
		i2 = append(i2, r)
	}
	return v2, i2
}

func exit1(e *int) {
	if *e == 0 {
		*e = 1
	}
}

func runWorker(p props.Prop, w, nw, from, n int, tmp string, a *agg) (last int, code int) {
	last = -1
	exe, _ := os.Executable()
	args := []string{"-prop", p.ID(), "-tier", *fTier, "-seed", strconv.FormatUint(*fSeed, 10), "-worker", fmt.Sprintf("%d/%d", w, nw), "-from", strconv.Itoa(from), "-count", strconv.Itoa(n)}
	cmd := exec.Command(exe, args...)
	cmd.Env = append(os.Environ(), "GOMAXPROCS=2", "GORACE=halt_on_error=0 exitcode=0 history_size=5 log_path="+filepath.Join(tmp, fmt.Sprintf("race-w%d-%d", w, from)))
	cmd.Stderr = os.Stderr
	out, err := cmd.StdoutPipe()
	if err != nil {
		return last, 2
	}
	if err := cmd.Start(); err != nil {
		fmt.Fprintln(os.Stderr, "simcheck: start worker:", err)
		return last, 2
	}
	sc := bufio.NewScanner(out)
	sc.Buffer(make([]byte, 1<<20), 1<<28)
	for sc.Scan() {
		var r props.Result
		if err := json.Unmarshal(sc.Bytes(), &r); err != nil {
			fmt.Fprintln(os.Stderr, "simcheck: bad worker line:", err, clip(sc.Text(), 200))
			continue
		}
		last = r.Index
		if *fDump {
			fmt.Println(sc.Text())
		}
		a.add(&r)
	}
	err = cmd.Wait()
	if err != nil {
		if ee, ok := err.(*exec.ExitError); ok {
			return last, ee.ExitCode()
		}
		return last, 2
	}
	return last, 0
}

func (a *agg) add(r *props.Result) {
	a.mu.Lock()
	defer a.mu.Unlock()
	a.evals++
	if r.Trivial {
		a.trivial++
	} else if r.Key != "" {
		a.keys[r.Key] = true
	}
	a.traces[r.Trace] = true
	a.outcomes[clip(r.Outcome, 80)]++
	for k, v := range r.Stats {
		a.stats[k] += v
	}
	a.simNs += r.SimNs
	a.steps += int64(r.Steps)
	a.wallUs += r.WallUs
	a.raceBytes += r.RaceBytes
	if r.Sample != nil && len(a.samples) < 3 {
		a.samples = append(a.samples, map[string]interface{}{"index": r.Index, "case": r.Sample, "outcome": r.Outcome, "steps": r.Steps, "sim_ms": r.SimNs / 1e6})
	}
	if len(r.V) > 0 {
		a.viol = append(a.viol, r)
	}
	if r.Infra != "" {
		a.infra = append(a.infra, r)
	}
}

// ---------------------------------------------------------------------------
// minimisation and replay files

func hasSig(r *props.Result, sig string) bool {
	for _, v := range r.V {
		if v.Sig == sig {
			return true
		}
	}
	return false
}

// shrink minimises the tape while the same signature persists.
func shrink(p props.Prop, c *props.Case, sig string, budget int, deadline time.Time) (*props.Case, *props.Result, int) {
	runs := 0
	best := append([]uint32(nil), c.Tape...)
	var bestRes *props.Result
	try := func(t []uint32) bool {
		if runs >= budget || time.Now().After(deadline) {
			return false
		}
		runs++
		cc := *c
		cc.Tape = t
		r := props.Execute(p, &cc, false, true)
		if r.Infra == "" && hasSig(r, sig) {
			// keep what was actually consumed, minus trailing zeros (zero padding is implicit)
			t2 := append([]uint32(nil), r.Tape...)
			for len(t2) > 0 && t2[len(t2)-1] == 0 {
				t2 = t2[:len(t2)-1]
			}
			best, bestRes = t2, r
			return true
		}
		return false
	}
	if !try(best) {
		return c, nil, runs
	}
	// 1. shortest prefix
	lo, hi := 0, len(best)
	for lo < hi {
		mid := (lo + hi) / 2
		if try(append([]uint32(nil), best[:mid]...)) {
			hi = len(best)
			if hi > mid {
				hi = mid
			}
		} else {
			lo = mid + 1
		}
		if runs >= budget {
			break
		}
	}
	// 2. delete chunks, 3. zero elements
	for pass := 0; pass < 3; pass++ {
		improved := false
		for size := 16; size >= 1; size /= 2 {
			for i := 0; i+size <= len(best); {
				t := append(append([]uint32(nil), best[:i]...), best[i+size:]...)
				if try(t) {
					improved = true
				} else {
					i += size
				}
				if runs >= budget || time.Now().After(deadline) {
					goto done
				}
			}
		}
		for i := len(best) - 1; i >= 0; i-- {
			if i < len(best) && best[i] != 0 {
				t := append([]uint32(nil), best...)
				t[i] = 0
				if try(t) {
					improved = true
				}
			}
			if runs >= budget || time.Now().After(deadline) {
				goto done
			}
		}
		if !improved {
			break
		}
	}
done:
	out := *c
	out.Tape = best
	return &out, bestRes, runs
}

func reportViolation(p props.Prop, r *props.Result, sig string) string {
	c := p.Make(*fTier, *fSeed, r.Index)
	c.Tape = r.Tape
	orig := len(c.Tape)
	var mc *props.Case
	var mr *props.Result
	runs := 0
	if !isHang(r) {
		mc, mr, runs = shrink(p, c, sig, 400, time.Now().Add(90*time.Second))
	}
	note := ""
	if isHang(r) {
		// every re-execution of a case that never yields costs a watchdog period and leaves a spinning thread
		// behind in this process: the recorded tape is the replay, unminimised
		mc, mr = c, r
		note = "not minimised: the violation is a task that never yields (each re-execution would cost a watchdog period)"
	} else if mr == nil {
		// could not reproduce in this process with zero padding: keep the full tape
		mc, mr = c, r
		note = "not minimised: did not reproduce under re-execution with a padded tape"
	} else {
		// final strict re-execution to record the exact tape
		fc := *mc
		fr := props.Execute(p, &fc, false, true)
		if hasSig(fr, sig) {
			mc.Tape = fr.Tape
			mr = fr
		}
		note = fmt.Sprintf("minimised from %d to %d choices in %d re-executions", orig, len(mc.Tape), runs)
	}
	for i := range mr.V {
		if mr.V[i].Sig == sig {
			v := mr.V[i]
			mc.Violation = &v
		}
	}
	mc.Name = mr.Name
	mc.Note = note
	if mr.Sample != nil {
		b, _ := json.Marshal(mr.Sample)
		mc.Note += "; case: " + string(b)
	}
	dir := *fReplayD
	if dir == "" {
		dir = "."
	}
	os.MkdirAll(dir, 0755)
	path := filepath.Join(dir, fmt.Sprintf("%s-%s.json", p.ID(), sanitize(sig)))
	b, _ := json.MarshalIndent(mc, "", " ")
	os.WriteFile(path, b, 0644)
	// replay in a fresh process: must reproduce
	exe, _ := os.Executable()
	cmd := exec.Command(exe, "-prop", p.ID(), "-replay", path)
	cmd.Env = append(os.Environ(), "GORACE=halt_on_error=0 exitcode=0 history_size=5 log_path="+filepath.Join(os.TempDir(), "simcheck-replay-race"))
	outb, _ := cmd.CombinedOutput()
	if !strings.Contains(string(outb), "REPRODUCED") {
		fmt.Printf("  warning: fresh-process replay of %s did not reproduce: %s\n", path, clip(string(outb), 400))
	}
	return path
}

func sanitize(s string) string {
	var b strings.Builder
	for _, r := range s {
		switch {
		case r >= 'a' && r <= 'z', r >= 'A' && r <= 'Z', r >= '0' && r <= '9', r == '-', r == '.':
			b.WriteRune(r)
		default:
			b.WriteRune('_')
		}
	}
	out := b.String()
	if len(out) > 100 {
		out = out[:100]
	}
	return out
}

func loadCase(path string) (*props.Case, error) {
	b, err := os.ReadFile(path)
	if err != nil {
		return nil, err
	}
	var c props.Case
	if err := json.Unmarshal(b, &c); err != nil {
		return nil, err
	}
	return &c, nil
}

func replay(p props.Prop, path string) int {
	c, err := loadCase(path)
	if err != nil {
		fmt.Fprintln(os.Stderr, "simcheck:", err)
		return 2
	}
	rw := newRaceWatch()
	// a hand-written case (parameters only: no tape, no recorded violation) draws from the seed's generator;
	// a recorded one must consume exactly its tape
	strict := !(len(c.Tape) == 0 && c.Violation == nil)
	r := props.Execute(p, c, strict, false)
	if rep := rw.poll(); rep != "" {
		r.V = append(r.V, props.Violation{Class: "data-race", Sig: p.ID() + " " + raceSig(rep), Detail: clip(rep, 6000)})
		if r.Infra == "replay diverged from the recorded tape" {
			r.Infra = ""
		}
	}
	if r.Infra != "" {
		fmt.Printf("INFRA %s\n", r.Infra)
		return 2
	}
	want := ""
	if c.Violation != nil {
		want = c.Violation.Sig
	}
	for _, v := range r.V {
		fmt.Printf("violation class=%s sig=%q\n%s\n", v.Class, v.Sig, clip(v.Detail, 4000))
	}
	known := loadKnown(*fKnown)
	if len(r.V) == 0 {
		fmt.Printf("replay: no violation (outcome %s, steps %d, trace %s)\n", r.Outcome, r.Steps, r.Trace)
		return 0
	}
	if want == "" || hasSig(r, want) {
		fmt.Printf("REPRODUCED steps=%d trace=%s\n", r.Steps, r.Trace)
	}
	for _, v := range r.V {
		if matchKnown(known, p.ID(), v.Sig) == nil {
			fmt.Printf("VIOLATION property=%s replay=%s\n", p.ID(), path)
			return 1
		}
	}
	fmt.Printf("KNOWN-FINDING: property=%s (replayed)\n", p.ID())
	return 0
}

func shrinkFile(p props.Prop, path string) int {
	c, err := loadCase(path)
	if err != nil || c.Violation == nil {
		fmt.Fprintln(os.Stderr, "simcheck: need a case file with a violation", err)
		return 2
	}
	mc, mr, runs := shrink(p, c, c.Violation.Sig, 2000, time.Now().Add(10*time.Minute))
	if mr == nil {
		fmt.Println("did not reproduce")
		return 2
	}
	b, _ := json.MarshalIndent(mc, "", " ")
	os.WriteFile(path+".min", b, 0644)
	fmt.Printf("minimised %d -> %d choices in %d runs: %s.min\n", len(c.Tape), len(mc.Tape), runs, path)
	return 0
}

// ---------------------------------------------------------------------------
// evidence

func writeEvidence(p props.Prop, a *agg, wall float64, nsig, unlisted int, knownHit map[string]int) {
	if *fEvidence == "" {
		return
	}
	real, stub := p.Components()
	type kv struct {
		K string
		V int
	}
	var outc []kv
	for k, v := range a.outcomes {
		outc = append(outc, kv{k, v})
	}
	sort.Slice(outc, func(i, j int) bool { return outc[i].V > outc[j].V || (outc[i].V == outc[j].V && outc[i].K < outc[j].K) })
	if len(outc) > 25 {
		outc = outc[:25]
	}
	outm := map[string]int{}
	for _, e := range outc {
		outm[e.K] = e.V
	}
	samples := a.samples
	if len(samples) == 0 {
		samples = []interface{}{"(no sample recorded)"}
	}
	cov := map[string]interface{}{
		"evaluations":                 a.evals,
		"distinct_nontrivial":         len(a.keys),
		"trivial":                     a.trivial,
		"rule":                        p.Rule(),
		"samples":                     samples,
		"exhaustive":                  false,
		"simulated_seconds":           float64(a.simNs) / 1e9,
		"scheduler_steps":             a.steps,
		"distinct_schedules":          len(a.traces),
		"runs_per_hour":               int(float64(a.evals) / wall * 3600),
		"fault_and_probe_hits":        a.stats,
		"outcomes_top":                outm,
		"components_real":             real,
		"components_stub":             stub,
		"failing_signatures_total":    nsig,
		"failing_signatures_unlisted": unlisted,
		"known_findings_hit":          knownHit,
		"workers":                     runtime.NumCPU(),
	}
	ev := map[string]interface{}{
		"property_id": p.ID(),
		"tier":        *fTier,
		"seed":        *fSeed,
		"level":       p.Level(),
		"coverage":    cov,
		"assumptions": p.Assumptions(),
		"wall_s":      wall,
		"violations":  unlisted, // signatures not listed in known_findings.json (each printed as a VIOLATION line)
	}
	b, _ := json.MarshalIndent(ev, "", " ")
	os.MkdirAll(filepath.Dir(*fEvidence), 0755)
	if err := os.WriteFile(*fEvidence, b, 0644); err != nil {
		fmt.Fprintln(os.Stderr, "simcheck: evidence:", err)
	}
}
