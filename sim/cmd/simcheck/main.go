package main

func main() {}
