// mkpki generates the static test PKI under sim/fix/pki (run once; output is committed).
package main

import (
	"crypto"
	"crypto/ecdsa"
	"crypto/ed25519"
	"crypto/elliptic"
	"crypto/rand"
	"crypto/rsa"
	stdx509 "crypto/x509"
	"crypto/x509/pkix"
	"encoding/pem"
	"fmt"
	"math/big"
	"os"
	"path/filepath"
	"time"

	"github.com/emmansun/gmsm/sm2"
	x509 "github.com/emmansun/gmsm/smx509"
)

var dir string
var serial int64 = 100

func must(err error) {
	if err != nil {
		panic(err)
	}
}

func writePEM(name, typ string, der []byte) {
	must(os.WriteFile(filepath.Join(dir, name), pem.EncodeToMemory(&pem.Block{Type: typ, Bytes: der}), 0644))
}

type ca struct {
	cert *x509.Certificate
	key  *sm2.PrivateKey
}

func mkCA(name string) *ca {
	k, err := sm2.GenerateKey(rand.Reader)
	must(err)
	serial++
	t := &x509.Certificate{SerialNumber: big.NewInt(serial), Subject: pkix.Name{CommonName: name, Organization: []string{"verif"}},
		NotBefore: date(2020), NotAfter: date(2045), KeyUsage: x509.KeyUsageCertSign | x509.KeyUsageCRLSign, BasicConstraintsValid: true, IsCA: true}
	der, err := x509.CreateCertificate(rand.Reader, t, t, &k.PublicKey, k)
	must(err)
	c, err := x509.ParseCertificate(der)
	must(err)
	writePEM(name+".crt", "CERTIFICATE", der)
	kd, err := x509.MarshalPKCS8PrivateKey(k)
	must(err)
	writePEM(name+".key", "PRIVATE KEY", kd)
	return &ca{c, k}
}

func date(y int) time.Time { return time.Date(y, 1, 1, 0, 0, 0, 0, time.UTC) }

type opt struct {
	dns        []string
	from, to   int
	fromT, toT time.Time // override from/to with exact dates
	eku        []x509.ExtKeyUsage
	enc        bool
	pub        crypto.PublicKey // foreign key type
	priv       crypto.PrivateKey
}

func leaf(c *ca, name string, o opt) {
	if o.from == 0 {
		o.from, o.to = 2025, 2035
	}
	if o.eku == nil {
		o.eku = []x509.ExtKeyUsage{x509.ExtKeyUsageServerAuth, x509.ExtKeyUsageClientAuth}
	}
	ku := x509.KeyUsageDigitalSignature
	if o.enc {
		ku = x509.KeyUsageKeyEncipherment | x509.KeyUsageDataEncipherment | x509.KeyUsageKeyAgreement
	}
	var pub crypto.PublicKey
	var keyDER []byte
	if o.pub == nil {
		k, err := sm2.GenerateKey(rand.Reader)
		must(err)
		pub = &k.PublicKey
		d, err := x509.MarshalPKCS8PrivateKey(k)
		must(err)
		keyDER = d
	} else {
		pub = o.pub
		d, err := stdx509.MarshalPKCS8PrivateKey(o.priv)
		must(err)
		keyDER = d
	}
	nb, na := date(o.from), date(o.to)
	if !o.fromT.IsZero() {
		nb, na = o.fromT, o.toT
	}
	serial++
	t := &x509.Certificate{SerialNumber: big.NewInt(serial), Subject: pkix.Name{CommonName: name, Organization: []string{"verif"}},
		DNSNames: o.dns, NotBefore: nb, NotAfter: na, KeyUsage: ku, ExtKeyUsage: o.eku}
	der, err := x509.CreateCertificate(rand.Reader, t, c.cert, pub, c.key)
	must(err)
	writePEM(name+".crt", "CERTIFICATE", der)
	writePEM(name+".key", "PRIVATE KEY", keyDER)
}

func pair(c *ca, name string, o opt) {
	leaf(c, name+"_sig", o)
	o.enc = true
	leaf(c, name+"_enc", o)
}

// forged adds, to an existing PKI directory, a CA that copies ca1's subject name and subject key identifier under a
// key of its own ("ca1_forged") and a server encryption certificate issued by it: by issuer name and authority key
// identifier that certificate looks like one of ca1's, but ca1 never signed it.
func forged() {
	blk, _ := pem.Decode(mustRead(filepath.Join(dir, "ca1.crt")))
	real, err := x509.ParseCertificate(blk.Bytes)
	must(err)
	k, err := sm2.GenerateKey(rand.Reader)
	must(err)
	t := &x509.Certificate{SerialNumber: big.NewInt(9001), RawSubject: real.RawSubject, SubjectKeyId: real.SubjectKeyId,
		NotBefore: date(2020), NotAfter: date(2045), KeyUsage: x509.KeyUsageCertSign | x509.KeyUsageCRLSign, BasicConstraintsValid: true, IsCA: true}
	der, err := x509.CreateCertificate(rand.Reader, t, t, &k.PublicKey, k)
	must(err)
	c, err := x509.ParseCertificate(der)
	must(err)
	writePEM("ca1_forged.crt", "CERTIFICATE", der)
	kd, err := x509.MarshalPKCS8PrivateKey(k)
	must(err)
	writePEM("ca1_forged.key", "PRIVATE KEY", kd)
	serial = 9100
	leaf(&ca{c, k}, "server_forgedca_enc", opt{dns: []string{"server.test"}, enc: true})
}

func mustRead(name string) []byte {
	b, err := os.ReadFile(name)
	must(err)
	return b
}

func main() {
	dir = os.Args[1]
	must(os.MkdirAll(dir, 0755))
	if len(os.Args) > 2 && os.Args[2] == "forged" {
		forged()
		fmt.Println("ok (forged CA and its encryption certificate only)")
		return
	}
	ca1 := mkCA("ca1")
	ca2 := mkCA("ca2")
	srv := []string{"server.test"}
	pair(ca1, "server", opt{dns: srv})
	pair(ca1, "server2", opt{dns: srv})
	pair(ca1, "server_expired", opt{dns: srv, from: 2020, to: 2025})
	pair(ca1, "server_future", opt{dns: srv, from: 2032, to: 2040})
	pair(ca1, "server_wrongname", opt{dns: []string{"other.test"}})
	pair(ca2, "server_untrusted", opt{dns: srv})
	pair(ca1, "client", opt{})
	pair(ca1, "client2", opt{})
	pair(ca2, "client_untrusted", opt{})
	pair(ca1, "client_expired", opt{from: 2020, to: 2025})
	// validity that tells the configured time (2030-01-01) from any plausible real date: "recent" ended shortly
	// before the configured date (still in date on a real clock until mid-2029), "late" begins shortly before it
	// (not yet in date on a real clock)
	mid2029 := time.Date(2029, 7, 1, 0, 0, 0, 0, time.UTC)
	for _, who := range []string{"server", "client"} {
		var dns []string
		if who == "server" {
			dns = srv
		}
		pair(ca1, who+"_recent", opt{dns: dns, fromT: date(2020), toT: mid2029})
		pair(ca1, who+"_late", opt{dns: dns, fromT: mid2029, toT: date(2031)})
	}
	pair(ca1, "client_wrongeku", opt{eku: []x509.ExtKeyUsage{x509.ExtKeyUsageCodeSigning}})
	// foreign key types
	rk, err := rsa.GenerateKey(rand.Reader, 2048)
	must(err)
	leaf(ca1, "rsa_sig", opt{dns: srv, pub: &rk.PublicKey, priv: rk})
	pk, err := ecdsa.GenerateKey(elliptic.P256(), rand.Reader)
	must(err)
	leaf(ca1, "p256_sig", opt{dns: srv, pub: &pk.PublicKey, priv: pk})
	leaf(ca1, "p256_enc", opt{dns: srv, pub: &pk.PublicKey, priv: pk, enc: true})
	ep, es, err := ed25519.GenerateKey(rand.Reader)
	must(err)
	leaf(ca1, "ed25519_sig", opt{dns: srv, pub: ep, priv: es})

	// plain TLS certificate (crypto/tls side of pa): self-signed ECDSA P-256
	tk, err := ecdsa.GenerateKey(elliptic.P256(), rand.Reader)
	must(err)
	tt := &stdx509.Certificate{SerialNumber: big.NewInt(7), Subject: pkix.Name{CommonName: "tls.test"}, DNSNames: []string{"server.test"},
		NotBefore: date(2020), NotAfter: date(2045), KeyUsage: stdx509.KeyUsageDigitalSignature | stdx509.KeyUsageCertSign, BasicConstraintsValid: true, IsCA: true,
		ExtKeyUsage: []stdx509.ExtKeyUsage{stdx509.ExtKeyUsageServerAuth}}
	tder, err := stdx509.CreateCertificate(rand.Reader, tt, tt, &tk.PublicKey, tk)
	must(err)
	writePEM("tls.crt", "CERTIFICATE", tder)
	tkd, err := stdx509.MarshalPKCS8PrivateKey(tk)
	must(err)
	writePEM("tls.key", "PRIVATE KEY", tkd)
	fmt.Println("ok")
}
