// Package simnet holds the simulated transports: a duplex byte-stream link
// (net.Conn pair, net.Listener) and a datagram network (net.PacketConn), both
// driven by the vs kernel. All state shared between tasks is written only in
// //go:norace functions and never through maps (see package vs).
package simnet

import (
	"io"
	"net"
	"time"

	"gitee.com/Trisia/gotlcp/vs"
)

type Addr string

func (a Addr) Network() string { return "sim" }
func (a Addr) String() string  { return string(a) }

type timeoutErr struct{}

func (timeoutErr) Error() string   { return "sim: i/o timeout" }
func (timeoutErr) Timeout() bool   { return true }
func (timeoutErr) Temporary() bool { return true }

// ErrTimeout is returned when a (virtual) deadline passes.
var ErrTimeout net.Error = timeoutErr{}

type resetErr struct{}

func (resetErr) Error() string   { return "sim: connection reset by peer" }
func (resetErr) Timeout() bool   { return false }
func (resetErr) Temporary() bool { return false }

// ErrReset is what a writer sees after the link was cut.
var ErrReset net.Error = resetErr{}

// ---------------------------------------------------------------------------
// byte queue built from linked chunks (no append/copy on shared memory)

type chunk struct {
	b    []byte
	off  int
	next *chunk
}

type chunkq struct {
	head, tail *chunk
	n          int
}

//go:norace
func ncopy(dst, src []byte) {
	for i := range src {
		dst[i] = src[i]
	}
}

//go:norace
func clone(b []byte) []byte {
	c := make([]byte, len(b))
	for i := range b {
		c[i] = b[i]
	}
	return c
}

//go:norace
func (q *chunkq) put(b []byte) {
	if len(b) == 0 {
		return
	}
	c := &chunk{b: clone(b)}
	if q.tail == nil {
		q.head, q.tail = c, c
	} else {
		q.tail.next = c
		q.tail = c
	}
	q.n += len(b)
}

//go:norace
func (q *chunkq) take(dst []byte) {
	i := 0
	for i < len(dst) {
		c := q.head
		for c.off < len(c.b) && i < len(dst) {
			dst[i] = c.b[c.off]
			i++
			c.off++
		}
		if c.off == len(c.b) {
			q.head = c.next
			if q.head == nil {
				q.tail = nil
			}
		}
	}
	q.n -= len(dst)
}

// Log is an append-only list of byte strings written by tasks (wire capture).
type Log struct {
	head, tail *logEnt
	N          int
}

type logEnt struct {
	b    []byte
	tag  int
	seq  uint64
	next *logEnt
}

//go:norace
func (l *Log) add(tag int, b []byte) {
	e := &logEnt{b: clone(b), tag: tag, seq: vs.Seq()}
	if l.tail == nil {
		l.head, l.tail = e, e
	} else {
		l.tail.next = e
		l.tail = e
	}
	l.N++
}

// Entry is one captured write.
type Entry struct {
	Tag  int
	Seq  uint64
	Data []byte
}

// Entries returns the capture (call after the run).
//
//go:norace
func (l *Log) Entries() []Entry {
	var out []Entry
	for e := l.head; e != nil; e = e.next {
		out = append(out, Entry{e.tag, e.seq, e.b})
	}
	return out
}

// Bytes concatenates all entries with the given tag.
//
//go:norace
func (l *Log) Bytes(tag int) []byte {
	var out []byte
	for e := l.head; e != nil; e = e.next {
		if e.tag == tag {
			for _, x := range e.b {
				out = append(out, x)
			}
		}
	}
	return out
}

// ---------------------------------------------------------------------------
// stream link

// Segmentation modes of the reader side.
const (
	SegAll    = 0 // a Read gets everything available (up to len(p))
	SegRandom = 1 // a Read gets 1..available bytes, chosen by the run's source
	SegByte   = 2 // one byte per Read
)

// Filter sees every chunk a writer hands to the link and returns what is
// actually put on the wire (man in the middle). It runs in the writer's task.
type Filter interface {
	// Filter returns the chunks to put on the wire; cut=true ends the direction
	// after them (the reader sees EOF, the writer a reset).
	Filter(b []byte) (out [][]byte, cut bool)
}

// half is one direction of a stream.
type half struct {
	q        chunkq
	wclosed  bool  // writer closed: reader sees EOF after draining
	rclosed  bool  // reader closed: writer sees an error
	cutAfter int64 // cut the direction once this many bytes were accepted (-1: never)
	cut      bool
	accepted int64
	filter   Filter
	limit    int  // > 0: a Write blocks while this many bytes are queued (a peer that does not read)
	sent     *Log // bytes as written by the endpoint
	wire     *Log // bytes as delivered to the link after the filter
	dir      int
}

// Conn is one end of a simulated stream connection.
type Conn struct {
	in, out  *half
	la, ra   Addr
	rdl, wdl time.Time
	closed   bool
	Seg      int
	Reads    int
	// AwaitExternalClose: the next Read first waits in real time (at most two seconds) for a Close from outside the
	// simulation
	AwaitExternalClose bool
	// EOFJoin: the Read that takes the last queued bytes of a stream whose writer is gone reports io.EOF together
	// with them (as an io.Reader may)
	EOFJoin bool
	// a hold armed with ArmHold: reads stop short of holdAt (counted in bytes read so far) and the bytes behind it
	// become readable only holdFor after the reader got there
	readTotal int64
	holdAt    int64
	holdFor   time.Duration
	holdUntil time.Time
	holdArmed bool
	// WriteErrAfter makes the n-th Write (1-based) and all later ones fail (0: never).
	WriteErrAfter int
	writes        int
}

// Pipe is a duplex stream between a client end and a server end.
type Pipe struct {
	C, S *Conn
	// Sent[0]: bytes written by the client end, Sent[1]: by the server end.
	Sent Log
	// Wire: bytes actually delivered (after filters / cuts), same tags.
	Wire Log
}

const (
	DirC2S = 0
	DirS2C = 1
)

func NewPipe(ca, sa Addr) *Pipe {
	p := &Pipe{}
	c2s := &half{cutAfter: -1, sent: &p.Sent, wire: &p.Wire, dir: DirC2S}
	s2c := &half{cutAfter: -1, sent: &p.Sent, wire: &p.Wire, dir: DirS2C}
	p.C = &Conn{in: s2c, out: c2s, la: ca, ra: sa}
	p.S = &Conn{in: c2s, out: s2c, la: sa, ra: ca}
	return p
}

// SetFilter installs a man in the middle on one direction.
func (p *Pipe) SetFilter(dir int, f Filter) {
	if dir == DirC2S {
		p.C.out.filter = f
	} else {
		p.S.out.filter = f
	}
}

// CutAfter cuts direction dir after n more... after n bytes in total were accepted on it.
func (p *Pipe) CutAfter(dir int, n int64) {
	if dir == DirC2S {
		p.C.out.cutAfter = n
	} else {
		p.S.out.cutAfter = n
	}
}

//go:norace
func (c *Conn) writable() bool {
	return c.closed || c.out.rclosed || c.out.cut || c.out.q.n < c.out.limit
}

// SetLimit bounds the bytes queued towards the peer (0 = unbounded).
//go:norace
func (c *Conn) SetLimit(n int) { c.out.limit = n }

//go:norace
func (c *Conn) readable() bool {
	return c.in.q.n > 0 || c.in.wclosed || c.in.cut || c.closed
}

//go:norace
func (c *Conn) Read(b []byte) (int, error) {
	if !vs.InSim() {
		return 0, net.ErrClosed
	}
	c.Reads++
	if c.AwaitExternalClose {
		// the caller's library has just started a goroutine outside the simulation that closes this transport:
		// wait (in real time, everything else parked) for that event, so that the read sees it in every run
		c.AwaitExternalClose = false
		for i := 0; i < 20000 && !c.closed; i++ {
			time.Sleep(100 * time.Microsecond)
		}
	}
	if !c.rdl.IsZero() && !vs.Now().Before(c.rdl) && !c.closed {
		// a deadline that has passed fails the read even if bytes are waiting (as a socket's poller does)
		return 0, ErrTimeout
	}
	ok := vs.Block(c.readable, c.rdl)
	if c.closed {
		return 0, net.ErrClosed
	}
	if !ok {
		return 0, ErrTimeout
	}
	if c.in.q.n == 0 {
		return 0, io.EOF
	}
	if c.holdArmed && c.readTotal == c.holdAt {
		// the sender pauses here
		if c.holdUntil.IsZero() {
			c.holdUntil = vs.Now().Add(c.holdFor)
		}
		until := c.holdUntil
		if !vs.Now().Before(until) {
			c.holdArmed = false
		} else {
			dl := until
			timeout := false
			if !c.rdl.IsZero() && c.rdl.Before(until) {
				dl, timeout = c.rdl, true
			}
			vs.Block(func() bool { return c.closed }, dl)
			if c.closed {
				return 0, net.ErrClosed
			}
			if timeout {
				return 0, ErrTimeout
			}
			c.holdArmed = false
		}
	}
	if len(b) == 0 {
		return 0, nil
	}
	n := c.in.q.n
	switch c.Seg {
	case SegRandom:
		if vs.Choose(4) == 0 {
			vs.Yield() // let another task run although data is available
			if c.closed {
				return 0, net.ErrClosed
			}
		}
		n = 1 + vs.Choose(n)
	case SegByte:
		n = 1
	}
	if n > len(b) {
		n = len(b)
	}
	if c.holdArmed && c.readTotal < c.holdAt && int64(n) > c.holdAt-c.readTotal {
		n = int(c.holdAt - c.readTotal)
	}
	c.in.q.take(b[:n])
	c.readTotal += int64(n)
	if c.EOFJoin && c.in.q.n == 0 && (c.in.wclosed || c.in.cut) {
		return n, io.EOF
	}
	return n, nil
}

// ArmHold makes the bytes that lie k bytes ahead of what has been read so far arrive d late.
//
//go:norace
func (c *Conn) ArmHold(k int, d time.Duration) {
	c.holdAt, c.holdFor, c.holdUntil, c.holdArmed = c.readTotal+int64(k), d, time.Time{}, true
}

//go:norace
func (c *Conn) Write(b []byte) (int, error) {
	if !vs.InSim() {
		return 0, net.ErrClosed
	}
	vs.Yield()
	if c.closed {
		return 0, net.ErrClosed
	}
	c.writes++
	if c.WriteErrAfter > 0 && c.writes >= c.WriteErrAfter {
		return 0, ErrReset
	}
	if !c.wdl.IsZero() && !vs.Now().Before(c.wdl) {
		return 0, ErrTimeout
	}
	h := c.out
	if h.limit > 0 && h.q.n >= h.limit {
		// the transport's buffers are full: block like a TCP socket whose peer does not read
		// like a socket, a blocked Write notices a deadline that another task sets (or moves) meanwhile
		for !c.writable() {
			dl := c.wdl
			ok := vs.Block(func() bool { return c.writable() || c.wdl != dl }, dl)
			if c.writable() {
				break
			}
			if !ok && c.wdl == dl {
				return 0, ErrTimeout
			}
			if !c.wdl.IsZero() && !vs.Now().Before(c.wdl) {
				return 0, ErrTimeout
			}
		}
		if c.closed {
			return 0, net.ErrClosed
		}
	}
	h.sent.add(h.dir, b) // what the endpoint handed to the transport, even if the peer is gone
	if h.rclosed || h.cut {
		return 0, ErrReset
	}
	if h.filter != nil {
		out, cut := h.filter.Filter(b)
		for _, x := range out {
			h.deliver(x)
		}
		if cut {
			h.cut = true
		}
	} else {
		h.deliver(b)
	}
	return len(b), nil
}

//go:norace
func (h *half) deliver(b []byte) {
	if h.cut {
		return
	}
	if h.cutAfter >= 0 && h.accepted+int64(len(b)) >= h.cutAfter {
		b = b[:h.cutAfter-h.accepted]
		h.cut = true
	}
	h.accepted += int64(len(b))
	if len(b) > 0 {
		h.wire.add(h.dir, b)
		h.q.put(b)
	}
}

// Close closes this end: the peer reads EOF after draining, local calls fail.
// It never yields, so it may be called from a goroutine that is not a task
// (the handshake-context interrupter).
//
//go:norace
func (c *Conn) Close() error {
	if c.closed {
		return net.ErrClosed
	}
	c.closed = true
	c.out.wclosed = true
	c.in.rclosed = true
	return nil
}

// CloseWriteSide makes the peer see EOF without closing this end for reading.
//
//go:norace
func (c *Conn) CloseWriteSide() { c.out.wclosed = true }

//go:norace
func (c *Conn) IsClosed() bool { return c.closed }

func (c *Conn) LocalAddr() net.Addr  { return c.la }
func (c *Conn) RemoteAddr() net.Addr { return c.ra }

//go:norace
func (c *Conn) SetDeadline(t time.Time) error { c.rdl, c.wdl = t, t; return nil }

//go:norace
func (c *Conn) SetReadDeadline(t time.Time) error { c.rdl = t; return nil }

//go:norace
func (c *Conn) SetWriteDeadline(t time.Time) error { c.wdl = t; return nil }

// Pending returns the number of undelivered bytes towards this end.
//
//go:norace
func (c *Conn) Pending() int { return c.in.q.n }

// ---------------------------------------------------------------------------
// listener handing out prepared connections

type Listener struct {
	conns  []net.Conn
	next   int
	closed bool
	addr   Addr
}

func NewListener(a Addr, conns ...net.Conn) *Listener { return &Listener{conns: conns, addr: a} }

//go:norace
func (l *Listener) Accept() (net.Conn, error) {
	if l.closed || l.next >= len(l.conns) {
		return nil, net.ErrClosed
	}
	c := l.conns[l.next]
	l.next++
	return c, nil
}

//go:norace
func (l *Listener) Close() error   { l.closed = true; return nil }
func (l *Listener) Addr() net.Addr { return l.addr }
