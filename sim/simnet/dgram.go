package simnet

import (
	"net"
	"runtime"
	"time"

	"gitee.com/Trisia/gotlcp/vs"
)

// Datagram fault kinds.
const (
	FDrop    = "drop"
	FDup     = "dup"
	FDelay   = "delay"   // extra delay P (ns): lets later datagrams overtake
	FCorrupt = "corrupt" // XOR byte at offset P (mod len) with Mask
	FTrunc   = "trunc"   // keep the first P bytes
	// FRewrite applies the structured rewrite P (RewritePayload: 3 ChangeCipherSpec lengthened, 4 Certificate list
	// cut to one, 5 Certificate list emptied) to the first epoch-0 record of the datagram it applies to
	FRewrite = "rewrite"
)

// DFault is one planned fault on the N-th datagram (0-based) sent in direction Dir.
type DFault struct {
	Dir  int    `json:"dir"`
	N    int    `json:"n"`
	Name string `json:"name,omitempty"` // if set (and the network has a Namer): hit the datagram with this name instead of index N
	Kind string `json:"kind"`
	P    int64  `json:"p,omitempty"`
	Mask byte   `json:"mask,omitempty"`
}

// Dgram is one datagram as seen by the network.
type Dgram struct {
	Data    []byte
	OrigLen int
	From    Addr
	To      Addr
	SentAt  time.Duration
	At      time.Time
	Seq     uint64
	Dir     int
	Index   int // index within its direction, as sent
	Dropped bool
	Dup     bool
	Name    string // "<kind>#<occurrence>" when the network has a Namer
	next    *Dgram
	gone    bool
}

// Net is a datagram network joining PacketConns by address.
type Net struct {
	eps     []*PacketConn
	Latency time.Duration
	Plan    []DFault
	fired   []bool
	// capture of everything handed to the network, in send order
	head, tail *sentEnt
	NSent      [2]int
	// Hook, if set, sees every datagram before faults are applied and may
	// replace the list of datagrams actually delivered (returns nil to keep
	// the default handling). It runs in the sender's task.
	Hook func(d *Dgram) []*Dgram
	// Namer classifies a datagram ("CH0", "F4" ...); the network appends "#occurrence".
	Namer func(d *Dgram) string
	names []nameCount
}

type nameCount struct {
	dir  int
	name string
	n    int
}

//go:norace
func (n *Net) nameOf(d *Dgram) string {
	k := n.Namer(d)
	for i := range n.names {
		if n.names[i].dir == d.Dir && n.names[i].name == k {
			n.names[i].n++
			return k + "#" + itoa(n.names[i].n)
		}
	}
	n.names = append(n.names, nameCount{d.Dir, k, 1})
	return k + "#1"
}

func itoa(v int) string {
	if v == 0 {
		return "0"
	}
	var b [12]byte
	i := len(b)
	for v > 0 {
		i--
		b[i] = byte('0' + v%10)
		v /= 10
	}
	return string(b[i:])
}

type sentEnt struct {
	d    *Dgram
	next *sentEnt
}

func NewNet() *Net { return &Net{Latency: time.Millisecond} }

// PacketConn is one endpoint address on the network.
type PacketConn struct {
	tail  *Dgram
	qn    int
	minAt time.Time
	net    *Net
	la     Addr
	dir    int // direction tag of datagrams sent from here
	q      *Dgram
	closed bool
	rdl    time.Time
	Sent   int
	// MaxDepth is the deepest call stack (in frames, capped at 512) from which ReadFrom was called: an endpoint
	// that recurses once per ignored datagram shows up here
	MaxDepth int
}

// Listen creates an endpoint. dir tags datagrams sent from it (DirC2S for the
// client side, DirS2C for the server side).
func (n *Net) Listen(a Addr, dir int) *PacketConn {
	p := &PacketConn{net: n, la: a, dir: dir}
	n.eps = append(n.eps, p)
	return p
}

// SetPlan installs the fault plan (before the run).
func (n *Net) SetPlan(p []DFault) {
	n.Plan = p
	n.fired = make([]bool, len(p))
}

// Fired reports which planned faults actually hit a datagram.
//
//go:norace
func (n *Net) Fired() []bool { return n.fired }

//go:norace
func (n *Net) find(a string) *PacketConn {
	for _, e := range n.eps {
		if string(e.la) == a {
			return e
		}
	}
	return nil
}

//go:norace
func (p *PacketConn) due() bool {
	if p.closed {
		return true
	}
	// minAt is the earliest arrival time among the queued datagrams (kept by enqueue / ReadFrom), so that a
	// queue of many datagrams that are all still in flight costs nothing to poll
	return p.qn > 0 && !p.minAt.After(vs.Now())
}

//go:norace
func (p *PacketConn) ReadFrom(b []byte) (int, net.Addr, error) {
	if !vs.InSim() {
		return 0, nil, net.ErrClosed
	}
	var pcs [512]uintptr
	if d := runtime.Callers(1, pcs[:]); d > p.MaxDepth {
		p.MaxDepth = d
	}
	ok := vs.Block(p.due, p.rdl)
	if p.closed {
		return 0, nil, net.ErrClosed
	}
	if !ok {
		return 0, nil, ErrTimeout
	}
	now := vs.Now()
	var best *Dgram
	for d := p.q; d != nil; d = d.next {
		if d.gone || d.At.After(now) {
			continue
		}
		if best == nil || d.At.Before(best.At) || (d.At.Equal(best.At) && d.Seq < best.Seq) {
			best = d
		}
	}
	best.gone = true
	p.qn--
	// unlink consumed prefix
	for p.q != nil && p.q.gone {
		p.q = p.q.next
	}
	if p.q == nil {
		p.tail = nil
	}
	p.minAt = time.Time{}
	first := true
	for d := p.q; d != nil; d = d.next {
		if !d.gone && (first || d.At.Before(p.minAt)) {
			p.minAt, first = d.At, false
		}
	}
	n := len(best.Data)
	if n > len(b) {
		n = len(b)
	}
	ncopy(b[:n], best.Data[:n])
	return n, best.From, nil
}

//go:norace
func (p *PacketConn) enqueue(d *Dgram) {
	d.next = nil
	if p.q == nil {
		p.q, p.tail = d, d
	} else {
		p.tail.next = d
		p.tail = d
	}
	if p.qn == 0 || d.At.Before(p.minAt) {
		p.minAt = d.At
	}
	p.qn++
	vs.WakeAt(d.At)
}

//go:norace
func (p *PacketConn) WriteTo(b []byte, a net.Addr) (int, error) {
	if !vs.InSim() {
		return 0, net.ErrClosed
	}
	vs.Yield()
	if p.closed {
		return 0, net.ErrClosed
	}
	p.Sent++
	n := p.net
	d := &Dgram{Data: clone(b), OrigLen: len(b), From: p.la, To: Addr(a.String()), SentAt: vs.K.Elapsed(), Seq: vs.Seq(), Dir: p.dir, Index: n.NSent[p.dir&1]}
	n.NSent[p.dir&1]++
	if n.Namer != nil {
		d.Name = n.nameOf(d)
	}
	e := &sentEnt{d: d}
	if n.tail == nil {
		n.head, n.tail = e, e
	} else {
		n.tail.next = e
		n.tail = e
	}
	n.route(d)
	return len(b), nil
}

//go:norace
func (n *Net) route(d *Dgram) {
	if n.Hook != nil {
		if out := n.Hook(d); out != nil {
			for _, x := range out {
				n.Inject(x)
			}
			return
		}
	}
	delay := n.Latency
	dup := false
	for i := range n.Plan {
		f := &n.Plan[i]
		if f.Dir != d.Dir {
			continue
		}
		if f.Name != "" {
			if f.Name != d.Name {
				continue
			}
		} else if f.N != d.Index {
			continue
		}
		n.fired[i] = true
		switch f.Kind {
		case FRewrite:
			if nd := rewriteDgram(d.Data, int(f.P)); nd != nil {
				d.Data = nd
			} else {
				n.fired[i] = false
			}
		case FDrop:
			d.Dropped = true
		case FDup:
			dup = true
		case FDelay:
			delay += time.Duration(f.P)
		case FCorrupt:
			if len(d.Data) > 0 {
				d.Data = clone(d.Data)
				d.Data[int(f.P)%len(d.Data)] ^= f.Mask
			}
		case FTrunc:
			if int(f.P) < len(d.Data) {
				d.Data = clone(d.Data[:f.P])
			}
		}
	}
	if d.Dropped {
		return
	}
	dst := n.find(string(d.To))
	if dst == nil {
		return
	}
	d.At = vs.Now().Add(delay)
	dst.enqueue(d)
	if dup {
		c := &Dgram{Data: clone(d.Data), From: d.From, To: d.To, Seq: vs.Seq(), Dir: d.Dir, Index: d.Index, Dup: true}
		c.At = vs.Now().Add(delay + n.Latency/2)
		dst.enqueue(c)
	}
}

// Inject delivers a forged or replayed datagram (From/To/Data set by the caller)
// after the network latency.
//
//go:norace
func (n *Net) Inject(d *Dgram) {
	dst := n.find(string(d.To))
	if dst == nil {
		return
	}
	c := &Dgram{Data: clone(d.Data), From: d.From, To: d.To, Seq: vs.Seq(), Dir: d.Dir, Index: -1}
	if d.At.IsZero() {
		c.At = vs.Now().Add(n.Latency)
	} else {
		c.At = d.At
	}
	dst.enqueue(c)
}

// Sent returns every datagram handed to the network, in send order.
//
//go:norace
func (n *Net) SentLog() []*Dgram {
	var out []*Dgram
	for e := n.head; e != nil; e = e.next {
		out = append(out, e.d)
	}
	return out
}

//go:norace
func (p *PacketConn) Close() error {
	p.closed = true
	return nil
}

func (p *PacketConn) LocalAddr() net.Addr { return p.la }

//go:norace
func (p *PacketConn) SetDeadline(t time.Time) error { p.rdl = t; return nil }

//go:norace
func (p *PacketConn) SetReadDeadline(t time.Time) error { p.rdl = t; return nil }

func (p *PacketConn) SetWriteDeadline(t time.Time) error { return nil }

//go:norace
func (p *PacketConn) IsClosed() bool { return p.closed }

//go:norace
func rewriteDgram(d []byte, how int) []byte {
	for q := 0; q+13 <= len(d); {
		n := int(d[q+11])<<8 | int(d[q+12])
		if q+13+n > len(d) {
			return nil
		}
		if d[q+3] == 0 && d[q+4] == 0 {
			if np := RewritePayload(d[q], d[q+13:q+13+n], how, 12); np != nil {
				out := clone(d[:q+13])
				out[q+11], out[q+12] = byte(len(np)>>8), byte(len(np))
				out = append(out, np...)
				return append(out, d[q+13+n:]...)
			}
		}
		q += 13 + n
	}
	return nil
}
