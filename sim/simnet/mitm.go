package simnet

// Record-level faults of the stream man in the middle.
const (
	RFlip   = "flip"   // XOR byte Off of the record (header included) with Mask
	RDrop   = "drop"   // remove the record
	RDup    = "dup"    // deliver the record twice
	RSwap   = "swap"   // exchange the record with the one that follows it
	RTrunc  = "trunc"  // deliver only the first Keep bytes of the record, then end the stream
	RCutAt  = "cut"    // end the stream right before the record (on the record boundary)
	RInject = "inject" // deliver Data (raw bytes) right before the record
	// RRewrite re-encodes a ClientHello / ServerHello that fills the record so that it parses to the same
	// fields but is not the same bytes: Off 0 appends an unknown, empty extension (adding the extensions
	// block if there is none), Off 1 exchanges the first two extensions, Off 2 appends a second extensions-like
	// tail of two zero bytes behind the message inside the record. Lengths are fixed up. Further forms work on
	// other messages (RewritePayload): Off 3 lengthens a ChangeCipherSpec by a zero byte, Off 4 cuts the list of a
	// Certificate message down to its first certificate, Off 5 empties the list.
	RRewrite = "rewrite"
)

// RFault addresses the N-th record (0-based) of content type Type in one
// direction (Type 0: N-th record of any type).
type RFault struct {
	Dir  int    `json:"dir"`
	Type byte   `json:"type"`
	N    int    `json:"n"`
	Kind string `json:"kind"`
	Off  int    `json:"off,omitempty"`
	Mask byte   `json:"mask,omitempty"`
	Keep int    `json:"keep,omitempty"`
	Data []byte `json:"data,omitempty"`
}

// RecordMITM re-frames one direction of a TLCP byte stream into records and
// applies a fault plan. It is only ever used by the task writing that direction.
type RecordMITM struct {
	Dir    int
	Plan   []RFault
	Fired  []bool
	buf    []byte
	byType [256]int
	total  int
	held   []byte // record waiting to be emitted after its successor (swap)
	// Seen is the list of records that passed (type and length), for the oracle.
	Seen []RecInfo
}

type RecInfo struct {
	Type   byte
	Len    int
	TypeN  int // index among records of this type
	Index  int // index among all records
	Action string
}

func NewRecordMITM(dir int, plan []RFault) *RecordMITM {
	m := &RecordMITM{Dir: dir}
	for _, f := range plan {
		if f.Dir == dir {
			m.Plan = append(m.Plan, f)
		}
	}
	m.Fired = make([]bool, len(m.Plan))
	return m
}

//go:norace
func (m *RecordMITM) Filter(b []byte) (out [][]byte, cut bool) {
	for _, x := range b {
		m.buf = append(m.buf, x)
	}
	for len(m.buf) >= 5 {
		n := int(m.buf[3])<<8 | int(m.buf[4])
		if len(m.buf) < 5+n {
			break
		}
		rec := clone(m.buf[:5+n])
		m.buf = clone(m.buf[5+n:])
		typ := rec[0]
		info := RecInfo{Type: typ, Len: n, TypeN: m.byType[typ], Index: m.total}
		m.byType[typ]++
		m.total++
		emit := [][]byte{rec}
		swap := false
		for i := range m.Plan {
			f := &m.Plan[i]
			if m.Fired[i] {
				continue
			}
			if !((f.Type == 0 && f.N == info.Index) || (f.Type != 0 && f.Type == typ && f.N == info.TypeN)) {
				continue
			}
			m.Fired[i] = true
			info.Action += f.Kind + " "
			switch f.Kind {
			case RFlip:
				rec[f.Off%len(rec)] ^= f.Mask
			case RDrop:
				emit = nil
			case RDup:
				emit = [][]byte{rec, clone(rec)}
			case RSwap:
				swap = true
			case RTrunc:
				k := f.Keep
				if k > len(rec) {
					k = len(rec)
				}
				m.Seen = append(m.Seen, info)
				if k > 0 {
					out = append(out, rec[:k])
				}
				return out, true
			case RCutAt:
				m.Seen = append(m.Seen, info)
				return out, true
			case RInject:
				emit = append([][]byte{clone(f.Data)}, emit...)
			case RRewrite:
				nr := rewriteHello(rec, f.Off)
				if f.Off >= 3 {
					nr = nil
					if np := RewritePayload(rec[0], rec[5:], f.Off, 4); np != nil {
						nr = append([]byte{rec[0], rec[1], rec[2], byte(len(np) >> 8), byte(len(np))}, np...)
					}
				}
				if nr != nil {
					rec = nr
					emit = [][]byte{rec}
				} else {
					m.Fired[i] = false
					info.Action += "(not applicable) "
				}
			}
		}
		m.Seen = append(m.Seen, info)
		if swap {
			m.held = rec
			continue
		}
		for _, e := range emit {
			out = append(out, e)
		}
		if m.held != nil {
			out = append(out, m.held)
			m.held = nil
		}
	}
	return out, false
}

// AllFired reports whether every planned fault hit a record.
//
//go:norace
func (m *RecordMITM) AllFired() bool {
	for _, f := range m.Fired {
		if !f {
			return false
		}
	}
	return true
}

// rewriteHello returns the record with its hello message re-encoded (see RRewrite), or nil when the record is
// not exactly one ClientHello / ServerHello or the transformation does not apply.
//
//go:norace
func rewriteHello(rec []byte, how int) []byte {
	if len(rec) < 5+4+35 || rec[0] != 22 {
		return nil
	}
	msg := rec[5:]
	typ := msg[0]
	mlen := int(msg[1])<<16 | int(msg[2])<<8 | int(msg[3])
	if (typ != 1 && typ != 2) || mlen != len(msg)-4 {
		return nil
	}
	body := msg[4:]
	p := 2 + 32 // version, random
	if p >= len(body) {
		return nil
	}
	p += 1 + int(body[p]) // session id
	if typ == 1 {
		if p+2 > len(body) {
			return nil
		}
		p += 2 + (int(body[p])<<8 | int(body[p+1])) // cipher suites
		if p+1 > len(body) {
			return nil
		}
		p += 1 + int(body[p]) // compression methods
	} else {
		p += 3 // suite, compression
	}
	if p > len(body) {
		return nil
	}
	var head, exts []byte
	for _, x := range body[:p] {
		head = append(head, x)
	}
	hasBlock := p+2 <= len(body)
	if hasBlock {
		n := int(body[p])<<8 | int(body[p+1])
		if p+2+n != len(body) {
			return nil
		}
		for _, x := range body[p+2:] {
			exts = append(exts, x)
		}
	} else if p != len(body) {
		return nil
	}
	var tail []byte
	switch how {
	case 0:
		exts = append(exts, 0xff, 0x77, 0, 0)
	case 1:
		// exchange the first two extensions
		if len(exts) < 4 {
			return nil
		}
		n0 := 4 + (int(exts[2])<<8 | int(exts[3]))
		if n0+4 > len(exts) {
			return nil
		}
		n1 := 4 + (int(exts[n0+2])<<8 | int(exts[n0+3]))
		if n0+n1 > len(exts) {
			return nil
		}
		var sw []byte
		sw = append(sw, exts[n0:n0+n1]...)
		sw = append(sw, exts[:n0]...)
		sw = append(sw, exts[n0+n1:]...)
		exts = sw
	case 2:
		if !hasBlock {
			return nil
		}
		tail = []byte{0, 0}
	default:
		return nil
	}
	nb := head
	nb = append(nb, byte(len(exts)>>8), byte(len(exts)))
	nb = append(nb, exts...)
	nb = append(nb, tail...)
	out := []byte{rec[0], rec[1], rec[2], byte((len(nb) + 4) >> 8), byte(len(nb) + 4), typ, byte(len(nb) >> 16), byte(len(nb) >> 8), byte(len(nb))}
	out = append(out, nb...)
	return out
}

// RewritePayload applies the structured rewrites 3..5 (see RRewrite) to the payload of an unprotected record of
// content type typ; hdr is the length of a handshake message header (4 on the stream stack, 12 on the datagram
// stack, where only unfragmented messages are rewritten and both length fields are fixed up). nil: not applicable.
//
//go:norace
func RewritePayload(typ byte, pl []byte, how int, hdr int) []byte {
	switch {
	case how == 3 && typ == 20:
		return append(clone(pl), 0)
	case (how == 4 || how == 5) && typ == 22:
		for q := 0; q+hdr <= len(pl); {
			n := int(pl[q+1])<<16 | int(pl[q+2])<<8 | int(pl[q+3])
			if hdr == 12 {
				fo := int(pl[q+6])<<16 | int(pl[q+7])<<8 | int(pl[q+8])
				fl := int(pl[q+9])<<16 | int(pl[q+10])<<8 | int(pl[q+11])
				if fo != 0 || fl != n {
					return nil
				}
			}
			if q+hdr+n > len(pl) {
				return nil
			}
			if pl[q] != 11 {
				q += hdr + n
				continue
			}
			body := pl[q+hdr : q+hdr+n]
			if len(body) < 3 {
				return nil
			}
			var list []byte
			if how == 4 {
				if len(body) < 6 {
					return nil
				}
				c0 := int(body[3])<<16 | int(body[4])<<8 | int(body[5])
				if 6+c0 >= len(body) { // a single certificate: nothing to cut
					return nil
				}
				list = clone(body[3 : 6+c0])
			} else if len(body) == 3 {
				return nil
			}
			nb := append([]byte{byte(len(list) >> 16), byte(len(list) >> 8), byte(len(list))}, list...)
			out := clone(pl[:q+hdr])
			out[q+1], out[q+2], out[q+3] = byte(len(nb)>>16), byte(len(nb)>>8), byte(len(nb))
			if hdr == 12 {
				out[q+9], out[q+10], out[q+11] = out[q+1], out[q+2], out[q+3]
			}
			out = append(out, nb...)
			out = append(out, pl[q+hdr+n:]...)
			return out
		}
	}
	return nil
}
