module verifsim

go 1.25.0

require (
	gitee.com/Trisia/gotlcp v0.0.0
	github.com/anishathalye/porcupine v1.3.0
	github.com/emmansun/gmsm v0.44.0
)

require golang.org/x/crypto v0.53.0 // indirect

replace gitee.com/Trisia/gotlcp => ../repo
