// Package vs is the deterministic simulation kernel used by /verif.
//
// It is copied into a scratch copy of the repository (import path
// gitee.com/Trisia/gotlcp/vs) next to the source-rewritten tlcp, dtlcp and pa
// packages, whose mutex, atomic and time calls are redirected here by vsinstr.
//
// One task (a real goroutine) holds the baton at any time; every other task is
// parked on a futex word. Which task runs next, which of several simultaneous
// timer events fires first and every choice the harness makes (segmentation,
// fault placement ...) comes from one choice source (Src): a tape of earlier
// choices followed by a PRNG. The recorded tape is the replay file.
//
// All hand-over code is //go:norace and uses raw futex system calls, so the
// race detector sees the library's own synchronisation and nothing added by
// the scheduler: a pair of unsynchronised accesses is reported although the
// two tasks never ran at the same time, and it is reported on every run of the
// same tape.
//
// Rule for code in this package and in the simulated transports: memory shared
// between tasks is written only inside named //go:norace functions and never
// through maps.
package vs

import (
	"os"
	"runtime"
	"runtime/debug"
	"sync"
	"sync/atomic"
	"syscall"
	"time"
	"unsafe"
)

// ---------------------------------------------------------------------------
// choice source

// Src is the single source of nondeterminism of a run.
type Src struct {
	tape    []uint32
	pos     int
	state   uint64
	Log     []uint32 // every choice actually taken, in order
	Strict  bool     // replay mode: a tape value out of range is a divergence
	Div     bool     // set when Strict and the tape did not fit
	padZero bool
}

// NewSrc returns a source that replays tape and then continues with a PRNG
// seeded by seed.
func NewSrc(seed uint64, tape []uint32) *Src {
	return &Src{tape: tape, state: seed*0x9E3779B97F4A7C15 + 0x1234567}
}

//go:norace
func (s *Src) next() uint64 {
	s.state += 0x9E3779B97F4A7C15
	z := s.state
	z = (z ^ (z >> 30)) * 0xBF58476D1CE4E5B9
	z = (z ^ (z >> 27)) * 0x94D049BB133111EB
	return z ^ (z >> 31)
}

// Intn returns a choice in [0,n). n<=1 consumes nothing.
//
//go:norace
func (s *Src) Intn(n int) int {
	if n <= 1 {
		return 0
	}
	var v int
	if s.pos < len(s.tape) {
		t := int(s.tape[s.pos])
		s.pos++
		if t >= n {
			if s.Strict {
				s.Div = true
			}
			t %= n
		}
		v = t
	} else if s.padZero {
		v = 0
	} else {
		if s.Strict {
			s.Div = true
		}
		v = int(s.next() % uint64(n))
	}
	s.Log = append(s.Log, uint32(v))
	return v
}

// PadZero makes the source answer 0 once the tape is exhausted (used while
// shrinking: a shorter tape means "default choices afterwards").
func (s *Src) PadZero() { s.padZero = true }

// Exhausted reports whether the whole tape was consumed.
func (s *Src) Exhausted() bool { return s.pos >= len(s.tape) }

// Bool returns true with probability num/den.
//
//go:norace
func (s *Src) Bool(num, den int) bool { return s.Intn(den) < num }

// ---------------------------------------------------------------------------
// kernel

type Task struct {
	ID      int
	Name    string
	word    uint32
	done    uint32
	tid     uintptr // OS thread the task goroutine is locked to
	cond    func() bool
	dl      time.Time
	hasDl   bool
	onLock  bool
	lockGen uint64
	Panic   interface{}
	Stack   []byte
	Steps   int
}

type event struct {
	at   time.Time
	seq  uint64
	fn   func()
	next *event
}

// Kernel schedules tasks. Exactly one Kernel is active per process at a time.
type Kernel struct {
	S          *Src
	tasks      []*Task
	cur        *Task
	mainW      uint32
	gen        uint64
	now        time.Time
	start      time.Time
	Steps      int
	MaxSteps   int
	MaxElapsed time.Duration // virtual-time budget (0 = none)
	timeUp     bool
	patience   int64 // multiplier for HangNs (re-check of a watchdog expiry)
	HangNs     int64 // wall-clock limit for one task step
	events     *event
	evseq      uint64
	seq        uint64 // global event sequence (history stamps)
	abort      bool
	wg         sync.WaitGroup
	trace      uint64 // running hash of scheduling decisions
	Timeouts   int    // Block deadlines that expired
	TimeAdv    int    // number of clock jumps
	Hung       *Task
}

var (
	K      *Kernel
	active atomic.Bool
)

type abortT struct{}

// Epoch is the virtual time at which every simulation starts: what time.Now() reads in instrumented code
// (the "wall clock"). It deliberately differs from the time the endpoint configurations are given
// (props.ConfigEpoch, 2030-01-01) and lies inside the validity of the "expired" fixtures (2020-2025), so that
// library code which consults the wall clock where the configured time is meant judges certificates wrongly
// and is seen.
var Epoch = time.Date(2024, 6, 1, 0, 0, 0, 0, time.UTC)

//go:norace
//go:noinline
func ld(p *uint32) uint32 { return *p }

//go:norace
//go:noinline
func st(p *uint32, v uint32) { *p = v }

type timespec struct{ sec, nsec int64 }

// fwait parks the calling thread until *p == want. timeout<=0 waits for ever.
// Returns false on timeout.
//
//go:norace
func fwait(p *uint32, want uint32, timeoutNs int64) bool {
	var deadline int64
	if timeoutNs > 0 {
		deadline = nanotime() + timeoutNs
	}
	for {
		c := ld(p)
		if c == want {
			return true
		}
		if timeoutNs > 0 {
			left := deadline - nanotime()
			if left <= 0 {
				return false
			}
			ts := timespec{left / 1e9, left % 1e9}
			syscall.Syscall6(syscall.SYS_FUTEX, uintptr(unsafe.Pointer(p)), 0, uintptr(c), uintptr(unsafe.Pointer(&ts)), 0, 0)
		} else {
			syscall.Syscall6(syscall.SYS_FUTEX, uintptr(unsafe.Pointer(p)), 0, uintptr(c), 0, 0, 0)
		}
	}
}

//go:norace
func nanotime() int64 {
	var ts timespec
	syscall.Syscall(syscall.SYS_CLOCK_GETTIME, 1, uintptr(unsafe.Pointer(&ts)), 0)
	return ts.sec*1e9 + ts.nsec
}

//go:norace
func fset(p *uint32, v uint32) {
	st(p, v)
	syscall.Syscall6(syscall.SYS_FUTEX, uintptr(unsafe.Pointer(p)), 1, 1<<30, 0, 0, 0)
}

// New creates and activates a kernel.
//
//go:norace
func New(s *Src) *Kernel {
	k := &Kernel{S: s, now: Epoch, start: Epoch, MaxSteps: 2000000, HangNs: 30e9}
	if os.Getenv("VERIF_PATIENCE") != "" {
		k.patience = 3
	}
	K = k
	active.Store(true)
	return k
}

// inTask reports whether the caller is the task that currently holds the
// baton. Task goroutines are locked to their OS thread, so the thread id tells
// a task apart from foreign goroutines that may run library code at any time
// (finalizers of the certificate cache, the handshake-context interrupter).
//
//go:norace
func inTask() bool {
	if !active.Load() || K == nil {
		return false
	}
	t := K.cur
	return t != nil && t.tid == gettid()
}

//go:norace
func gettid() uintptr {
	r, _, _ := syscall.RawSyscall(syscall.SYS_GETTID, 0, 0, 0)
	return r
}

// InSim reports whether the caller runs as a kernel task.
//
//go:norace
func InSim() bool { return inTask() }

// sw hands the baton back to the scheduler and parks until rescheduled.
//
//go:norace
func sw() {
	k := K
	if k.abort {
		panic(abortT{})
	}
	t := k.cur
	t.Steps++
	st(&t.word, 0)
	fset(&k.mainW, 1)
	fwait(&t.word, 1, 0)
	if k.abort {
		panic(abortT{})
	}
}

// Yield is a pre-emption point.
//
//go:norace
func Yield() {
	if !inTask() {
		return
	}
	sw()
}

// Block parks the current task until cond() holds or the virtual deadline dl
// (zero = none) has passed. It returns false on timeout. cond must only read
// simulator state through //go:norace code.
//
//go:norace
func Block(cond func() bool, dl time.Time) bool {
	if !inTask() {
		panic("vs.Block outside simulation")
	}
	k := K
	t := k.cur
	for {
		if cond() {
			return true
		}
		if !dl.IsZero() && !k.now.Before(dl) {
			k.Timeouts++
			return false
		}
		t.cond = cond
		t.dl = dl
		t.hasDl = !dl.IsZero()
		sw()
		t.cond = nil
		t.hasDl = false
	}
}

// Lock is what `m.Lock()` is rewritten to: vs.Lock(m.TryLock, m.Lock).
//
//go:norace
func Lock(try func() bool, lock func()) {
	if !inTask() {
		lock()
		return
	}
	sw() // pre-emption point before every acquisition
	for !try() {
		k := K
		t := k.cur
		t.onLock = true
		t.lockGen = k.gen
		sw()
	}
}

// Unlock is what `m.Unlock()` is rewritten to.
//
//go:norace
func Unlock(unlock func()) {
	unlock()
	if inTask() {
		K.gen++
	}
}

// A wraps an atomic load / CAS used as an expression: identity + yield.
func A[T any](v T) T { Yield(); return v }

// Seq returns the next global event sequence number (history stamps).
//
//go:norace
func Seq() uint64 {
	k := K
	k.seq++
	return k.seq
}

// Choose draws a harness choice from the run's choice source.
//
//go:norace
func Choose(n int) int { return K.S.Intn(n) }

// ---------------------------------------------------------------------------
// virtual time

//go:norace
func Now() time.Time {
	if active.Load() && K != nil {
		return K.now
	}
	return time.Now()
}

// Elapsed is the virtual time since the current run started (0 outside a run).
//
//go:norace
func Elapsed() time.Duration {
	if active.Load() && K != nil {
		return K.now.Sub(K.start)
	}
	return 0
}

func Since(t time.Time) time.Duration { return Now().Sub(t) }
func Until(t time.Time) time.Duration { return t.Sub(Now()) }

// Sleep parks the task for d of virtual time.
//
//go:norace
func Sleep(d time.Duration) {
	if !inTask() {
		time.Sleep(d)
		return
	}
	dl := K.now.Add(d)
	Block(never, dl)
}

func never() bool { return false }

// SetClock sets the wall clock the run starts at (default Epoch). Call before Run.
//
//go:norace
func (k *Kernel) SetClock(t time.Time) { k.now, k.start = t, t }

// Elapsed is the virtual time since the start of the run.
//
//go:norace
func (k *Kernel) Elapsed() time.Duration { return k.now.Sub(k.start) }

// Timer mirrors the part of time.Timer the library uses.
type Timer struct {
	C  <-chan time.Time
	c  chan time.Time
	ev *event
}

//go:norace
func NewTimer(d time.Duration) *Timer {
	if !(active.Load() && K != nil) {
		rt := time.NewTimer(d)
		return &Timer{C: rt.C}
	}
	c := make(chan time.Time, 1)
	t := &Timer{C: c, c: c}
	t.ev = K.After(d, func() {
		select {
		case c <- K.now:
		default:
		}
	})
	return t
}

//go:norace
func (t *Timer) Stop() bool {
	if t.ev != nil && t.ev.fn != nil {
		t.ev.fn = nil
		return true
	}
	return false
}

//go:norace
func (t *Timer) Reset(d time.Duration) bool {
	was := t.Stop()
	c := t.c
	t.ev = K.After(d, func() {
		select {
		case c <- K.now:
		default:
		}
	})
	return was
}

func After(d time.Duration) <-chan time.Time { return NewTimer(d).C }

// After registers fn to run (on the scheduler, holding the baton) once d of
// virtual time has passed. fn==nil events only make the clock stop there.
//
//go:norace
func (k *Kernel) After(d time.Duration, fn func()) *event {
	k.evseq++
	if fn == nil {
		fn = nop
	}
	e := &event{at: k.now.Add(d), seq: k.evseq, fn: fn}
	// insert sorted by (at, seq)
	pp := &k.events
	for *pp != nil && !(*pp).at.After(e.at) {
		pp = &(*pp).next
	}
	e.next = *pp
	*pp = e
	return e
}

func nop() {}

// WakeAt makes sure the clock stops at t (used by transports for deliveries).
//
//go:norace
func WakeAt(t time.Time) {
	k := K
	d := t.Sub(k.now)
	if d < 0 {
		d = 0
	}
	k.After(d, nil)
}

// ---------------------------------------------------------------------------
// tasks

// Spawn creates a task. It may be called before Run or from a running task.
//
//go:norace
func (k *Kernel) Spawn(name string, f func()) *Task {
	t := &Task{ID: len(k.tasks), Name: name}
	k.tasks = append(k.tasks, t)
	k.wg.Add(1)
	go run(k, t, f)
	return t
}

func run(k *Kernel, t *Task, f func()) {
	defer k.wg.Done()
	runtime.LockOSThread() // never unlocked: the thread ends with the goroutine
	settid(t)
	fwait(&t.word, 1, 0)
	defer func() {
		if r := recover(); r != nil {
			if _, ok := r.(abortT); !ok {
				t.Panic = r
				t.Stack = debug.Stack()
			}
		}
		exit(k, t)
	}()
	if k.abort {
		return
	}
	f()
}

//go:norace
func settid(t *Task) { t.tid = gettid() }

//go:norace
func exit(k *Kernel, t *Task) {
	k.gen++ // a dying task may have released locks through plain Unlock calls
	st(&t.done, 1)
	st(&t.word, 0)
	fset(&k.mainW, 1)
}

//go:norace
func (k *Kernel) enabled(t *Task) bool {
	if ld(&t.done) == 1 {
		return false
	}
	if t.onLock {
		return t.lockGen != k.gen
	}
	if t.cond != nil {
		if t.cond() {
			return true
		}
		return t.hasDl && !k.now.Before(t.dl)
	}
	return true
}

// Result of Run.
const (
	Done     = ""
	Deadlock = "deadlock"
	Budget   = "step-budget"
	Hang     = "hang"
	TimeUp   = "time-budget"
)

// Run schedules until every task has finished, nothing can ever run again
// (deadlock), the step budget is spent, or a task fails to yield (hang).
//
//go:norace
func (k *Kernel) Run() string {
	defer func() { k.cur = nil }()
	en := make([]*Task, 0, 16)
	for {
		en = en[:0]
		alive := 0
		for _, t := range k.tasks {
			if ld(&t.done) == 1 {
				continue
			}
			alive++
			if k.enabled(t) {
				en = append(en, t)
			}
		}
		if alive == 0 {
			return Done
		}
		if len(en) == 0 {
			if !k.advance() {
				if k.timeUp {
					return TimeUp
				}
				return Deadlock
			}
			continue
		}
		k.Steps++
		if k.Steps > k.MaxSteps {
			return Budget
		}
		i := k.S.Intn(len(en))
		t := en[i]
		t.onLock = false
		k.trace = (k.trace ^ uint64(t.ID+1)) * 0x100000001B3
		k.cur = t
		st(&k.mainW, 0)
		fset(&t.word, 1)
		hn := k.HangNs
		if k.patience > 1 {
			hn *= k.patience
		}
		if !fwait(&k.mainW, 1, hn) {
			k.Hung = t
			return Hang
		}
	}
}

// advance moves the clock to the next event or deadline and fires what is due.
//
//go:norace
func (k *Kernel) advance() bool {
	var next time.Time
	have := false
	for e := k.events; e != nil; e = e.next {
		if e.fn != nil {
			next, have = e.at, true
			break
		}
	}
	for _, t := range k.tasks {
		if ld(&t.done) == 0 && t.cond != nil && t.hasDl && (!have || t.dl.Before(next)) {
			next, have = t.dl, true
		}
	}
	if !have {
		return false
	}
	if k.MaxElapsed > 0 && next.Sub(k.start) > k.MaxElapsed {
		k.timeUp = true
		return false
	}
	if next.After(k.now) {
		k.now = next
		k.TimeAdv++
	}
	// fire due events; several at the same instant fire in an order chosen by the source
	for {
		for k.events != nil && k.events.fn == nil {
			k.events = k.events.next
		}
		e := k.events
		if e == nil || e.at.After(k.now) {
			break
		}
		n := 0
		for x := e; x != nil && x.at.Equal(e.at); x = x.next {
			if x.fn != nil {
				n++
			}
		}
		pick := k.S.Intn(n)
		for x := e; x != nil; x = x.next {
			if x.fn == nil {
				continue
			}
			if pick == 0 {
				fn := x.fn
				x.fn = nil
				k.cur = nil
				fn()
				break
			}
			pick--
		}
	}
	return true
}

// Shutdown aborts every unfinished task (each unwinds through its deferred
// calls) and deactivates the kernel. Tasks that hang are abandoned.
//
//go:norace
func (k *Kernel) Shutdown() {
	k.abort = true
	if k.Hung == nil {
		for _, t := range k.tasks {
			if ld(&t.done) == 0 {
				k.cur = t
				st(&k.mainW, 0)
				fset(&t.word, 1)
				if !fwait(&k.mainW, 1, k.HangNs) {
					k.Hung = t
					break
				}
			}
		}
	}
	k.cur = nil
	active.Store(false)
	if k.Hung == nil {
		k.wg.Wait()
	}
}

// Tasks returns the task table (after Shutdown).
func (k *Kernel) Tasks() []*Task { return k.tasks }

// Trace returns a hash of all scheduling decisions.
func (k *Kernel) Trace() uint64 { return k.trace }

// Unfinished lists tasks that had not finished when Run returned.
//
//go:norace
func (k *Kernel) Unfinished() []string {
	var out []string
	for _, t := range k.tasks {
		if ld(&t.done) == 0 {
			out = append(out, t.Name)
		}
	}
	return out
}
