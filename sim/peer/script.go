package peer

import (
	"bytes"
	"crypto"
	"errors"
	"fmt"
	"strings"

	"github.com/emmansun/gmsm/sm2"

	"verifsim/ref"
)

// Ops understood by both roles (send side):
//
//	CH SH CERT SKX CR SHD CKE CV CCS FIN HVR  handshake messages / change cipher spec
//	ALERTW            warning alert (1,90 user_canceled)
//	ALERTF:<desc>     fatal alert
//	CLOSE_NOTIFY      alert (1,0)
//	APP               one application-data record
//	EMPTYHS           empty handshake record
//	APP0              empty application-data record
//	[ ... ]           the handshake messages in between share one record
//	{ ... }           the records in between share one datagram (one transport write)
//	RAW:<hex>         raw bytes on the transport
//	~<KIND>           that handshake message with the message_seq of the message before it, kept out of the transcript
//
// receive side:
//
//	rCH               (server) read ClientHello, doing the cookie exchange on DTLCP when Opts.Cookie
//	rFLIGHT           read the other side's next flight: handshake messages up to the one that ends
//	                  it (ServerHelloDone / Finished), processing everything on the way; stops at a
//	                  (virtual) read timeout, an alert or end of stream
//	rAPP              read until application data, alert or end of stream
//
// Every handshake message sent or received enters the transcript (HelloVerifyRequest
// and the cookie-less ClientHello excepted), so Finished values are computed over
// what was really exchanged.

// Opts configures a scripted endpoint.
type Opts struct {
	Suites    []uint16 // client: offered; server: acceptable (first match with the offer wins; empty = first offered)
	Certs     [][]byte // own certificate list to present
	SigKey    crypto.PrivateKey
	EncKey    *sm2.PrivateKey // nil: the peer does not hold the encryption key
	SNI       string
	ALPN      []string
	SessionID []byte // client: session id to offer; server: id to put into ServerHello (nil: random)
	Master    []byte // master secret of the session to resume (both roles)
	Resume    bool   // server: answer with the offered session id and resume with Master
	Cookie    bool   // server on DTLCP: require a cookie first
	// ServerKeyExchange mutations (server role)
	SKX       string // "", "other-randoms", "other-cert", "other-params", "corrupt", "empty", "trailing"
	ReplayCR  []byte
	ReplaySR  []byte
	OtherCert []byte
	// CertificateRequest (server role)
	CAs [][]byte
	// CertificateVerify mutations (client role): "", "other-transcript", "corrupt", "empty"
	CV    string
	CVKey crypto.PrivateKey // key used for CertificateVerify (default SigKey)
	// ClientKeyExchange override (client role): raw body
	CKEBody []byte
	// ECDHE ClientKeyExchange as vector
	VecParams bool
	// GrindZero (client role, ECDHE): choose the ephemeral key so that the pre-master secret begins with 0x00
	GrindZero bool
	// Body overrides: message kind -> raw body sent instead of the honest one
	Body map[string][]byte
	// Mutate, if set, may rewrite any outgoing handshake body.
	Mutate func(kind string, body []byte) []byte
}

// Outcome of a script.
type Outcome struct {
	Err        error  // why the script stopped early (nil: ran to the end)
	StoppedAt  string // op that failed
	FinishedOK bool   // the other side's Finished matched our transcript
	GotFinished bool
	Completed  bool // we sent and received Finished
	Unreadable bool // a protected record of the other side did not open under our keys
}

// Run executes the script.
func (p *Peer) Run(o *Opts, ops []string) *Outcome {
	out := &Outcome{}
	sentFin := false
	for _, op := range ops {
		var err error
		switch {
		case op == "rCH":
			err = p.recvClientHello(o)
		case op == "rFLIGHT":
			err = p.recvFlight(o, out)
			if ne, ok := err.(interface{ Timeout() bool }); ok && ne.Timeout() {
				err = nil // nothing came: the other side is waiting for us; carry on with the script
			}
		case op == "rAPP":
			err = p.recvApp()
		case op == "CCS":
			err = p.SendCCS()
		case op == "ALERTW":
			err = p.SendAlert(1, 90)
		case op == "CLOSE_NOTIFY":
			err = p.SendAlert(1, 0)
		case strings.HasPrefix(op, "ALERTF:"):
			var d int
			fmt.Sscanf(op[7:], "%d", &d)
			err = p.SendAlert(2, byte(d))
		case op == "APP":
			err = p.SendApp([]byte("scripted application data"))
		case op == "CCS0":
			p.SwitchKeysSilently()
		case op == "HREQ":
			// a HelloRequest (handshake type 0, no body): not a TLCP message, not part of any transcript
			err = p.SendMsg(0, nil, true)
		case strings.HasPrefix(op, "~"):
			// a message as somebody on the path would slip it in: it re-uses the message_seq of the message sent before
			// it and is not part of this side's transcript (only for kinds that carry no key material)
			seq, tl := p.MsgSeq, len(p.Transcript)
			if p.MsgSeq > 0 {
				p.MsgSeq--
			}
			ns := len(p.Sent)
			err = p.sendKind(o, op[1:])
			for k := ns; k < len(p.Sent); k++ {
				p.Sent[k] = "~" + p.Sent[k] // not the message of that kind the flow has: it is in nobody's transcript
			}
			p.MsgSeq = seq
			if len(p.Transcript) > tl {
				p.Transcript = p.Transcript[:tl]
			}
		case op == "{":
			// everything sent up to the matching "}" travels in ONE datagram / transport write
			g, ok := p.T.(*gatherT)
			if !ok {
				g = &gatherT{Transport: p.T}
				p.T = g
			}
			g.on = true
		case op == "}":
			if g, ok := p.T.(*gatherT); ok {
				g.on = false
				if len(g.buf) > 0 {
					err = g.Transport.Send(g.buf)
					g.buf = nil
				}
			}
		case op == "[":
			p.BeginPack()
		case op == "]":
			err = p.EndPack()
		case op == "APP0":
			// an application-data record without payload (protected once the write cipher is on)
			p.Sent = append(p.Sent, "APP0")
			err = p.WriteRecord(ref.RecAppData, nil)
		case op == "EMPTYHS":
			p.Sent = append(p.Sent, "EMPTYHS")
			err = p.WriteRecord(ref.RecHandshake, nil)
		case strings.HasPrefix(op, "RAW:"):
			var b []byte
			fmt.Sscanf(op[4:], "%x", &b)
			p.Sent = append(p.Sent, "RAW")
			err = p.T.Send(b)
		default:
			err = p.sendKind(o, op)
			if op == "FIN" && err == nil {
				sentFin = true
			}
		}
		if err != nil {
			out.Err, out.StoppedAt = err, op
			break
		}
	}
	out.Completed = sentFin && out.GotFinished && out.Err == nil
	return out
}

func (p *Peer) body(o *Opts, kind string, honest func() ([]byte, error)) ([]byte, error) {
	if b, ok := o.Body[kind]; ok {
		return b, nil
	}
	b, err := honest()
	if err != nil {
		// the message cannot be built honestly in this state (e.g. a key exchange before the
		// certificates): send a well-framed stand-in so that the script can go on
		b = p.rnd(64)
	}
	if o.Mutate != nil {
		b = o.Mutate(kind, b)
	}
	return b, nil
}

func (p *Peer) sendKind(o *Opts, kind string) error {
	switch kind {
	case "CH":
		b, err := p.body(o, kind, func() ([]byte, error) {
			if p.CH == nil {
				h := &ref.ClientHello{Vers: p.Vers, Random: p.rnd(32), SessionID: o.SessionID, Suites: o.Suites, Compression: []byte{0}}
				if o.SNI != "" {
					h.Exts = append(h.Exts, ref.ExtSNI(o.SNI))
				}
				h.Exts = append(h.Exts, ref.ExtCurves(), ref.ExtSigAlgs())
				if len(o.ALPN) > 0 {
					h.Exts = append(h.Exts, ref.ExtALPN(o.ALPN))
				}
				p.CH = h
			}
			return p.CH.Body(p.DTLS), nil
		})
		if err != nil {
			return err
		}
		if p.CH == nil {
			p.CH, _ = ref.ParseClientHello(b, p.DTLS)
		}
		// on DTLCP only the ClientHello that carries the cookie enters the transcript
		return p.SendMsg(ref.TClientHello, b, false)
	case "SH":
		b, err := p.body(o, kind, func() ([]byte, error) {
			if p.CH == nil {
				return nil, errors.New("peer: SH before ClientHello")
			}
			h := &ref.ServerHello{Vers: p.Vers, Random: p.rnd(32)}
			p.Suite = p.pickSuite(o)
			h.Suite = p.Suite
			switch {
			case o.Resume:
				h.SessionID = p.CH.SessionID
				p.Resuming = true
			case o.SessionID != nil:
				h.SessionID = o.SessionID
			default:
				h.SessionID = p.rnd(32)
			}
			p.SH = h
			return h.Body(), nil
		})
		if err != nil {
			return err
		}
		if p.SH == nil {
			p.SH, _ = ref.ParseServerHello(b)
		}
		if err := p.SendMsg(ref.TServerHello, b, false); err != nil {
			return err
		}
		if p.Resuming && o.Master != nil && p.CH != nil && p.SH != nil {
			p.SetMaster(o.Master)
		}
		return nil
	case "HVR":
		return p.SendMsg(ref.THelloVerifyRequest, ref.HelloVerifyRequestBody(p.Vers, p.rnd(32)), true)
	case "CERT":
		b, err := p.body(o, kind, func() ([]byte, error) { return ref.CertificateBody(o.Certs), nil })
		if err != nil {
			return err
		}
		return p.SendMsg(ref.TCertificate, b, false)
	case "SKX":
		b, err := p.body(o, kind, func() ([]byte, error) { return p.buildSKX(o) })
		if err != nil {
			return err
		}
		return p.SendMsg(ref.TServerKeyExchange, b, false)
	case "CR":
		b, err := p.body(o, kind, func() ([]byte, error) { return ref.CertificateRequestBody([]byte{1, 64}, o.CAs), nil })
		if err != nil {
			return err
		}
		return p.SendMsg(ref.TCertificateRequest, b, false)
	case "SHD":
		b, _ := p.body(o, kind, func() ([]byte, error) { return nil, nil })
		return p.SendMsg(ref.TServerHelloDone, b, false)
	case "CKE":
		b, err := p.body(o, kind, func() ([]byte, error) { return p.buildCKE(o) })
		if err != nil {
			return err
		}
		return p.SendMsg(ref.TClientKeyExchange, b, false)
	case "CV":
		b, err := p.body(o, kind, func() ([]byte, error) { return p.buildCV(o) })
		if err != nil {
			return err
		}
		return p.SendMsg(ref.TCertificateVerify, b, false)
	case "FIN":
		b, _ := p.body(o, kind, func() ([]byte, error) { return p.FinishedData(p.IsClient), nil })
		return p.SendMsg(ref.TFinished, b, false)
	}
	return fmt.Errorf("peer: unknown op %q", kind)
}

func (p *Peer) pickSuite(o *Opts) uint16 {
	if p.CH == nil {
		if len(o.Suites) > 0 {
			return o.Suites[0]
		}
		return 0xe053
	}
	for _, s := range o.Suites {
		for _, c := range p.CH.Suites {
			if s == c {
				return s
			}
		}
	}
	if len(o.Suites) > 0 {
		return o.Suites[0]
	}
	if len(p.CH.Suites) > 0 {
		return p.CH.Suites[0]
	}
	return 0xe053
}

func (p *Peer) buildSKX(o *Opts) ([]byte, error) {
	if p.CH == nil || p.SH == nil {
		return nil, errors.New("peer: SKX before hellos")
	}
	cr, sr := p.CH.Random, p.SH.Random
	if o.SKX == "other-randoms" {
		cr, sr = o.ReplayCR, o.ReplaySR
	}
	var params, tbs []byte
	if isECDHE(p.Suite) {
		pub, err := p.NewEphemeral()
		if err != nil {
			return nil, err
		}
		params = ECDHEParams(pub)
		signed := params
		if o.SKX == "other-params" {
			k2 := New(p.DTLS, false, nil, p.Rand)
			pub2, _ := k2.NewEphemeral()
			signed = ECDHEParams(pub2)
		}
		tbs = append(append(append([]byte{}, cr...), sr...), signed...)
	} else {
		enc := []byte{}
		if len(o.Certs) > 1 {
			enc = o.Certs[1]
		}
		if o.SKX == "other-cert" || o.SKX == "other-params" {
			enc = o.OtherCert
		}
		tbs = ECCSignedParams(cr, sr, enc)
	}
	var sig []byte
	switch o.SKX {
	case "empty":
		sig = nil
	default:
		var err error
		sig, err = SignSM2(p.Rand, o.SigKey, tbs)
		if err != nil {
			return nil, err
		}
		if o.SKX == "corrupt" {
			sig[len(sig)/2] ^= 0x20
		}
	}
	out := append([]byte{}, params...)
	out = append(out, byte(len(sig)>>8), byte(len(sig)))
	out = append(out, sig...)
	if o.SKX == "trailing" {
		out = append(out, 0, 0, 0)
	}
	return out, nil
}

func (p *Peer) buildCKE(o *Opts) ([]byte, error) {
	if o.CKEBody != nil {
		return o.CKEBody, nil
	}
	if p.CH == nil || p.SH == nil || len(p.PeerCerts) < 2 {
		return nil, errors.New("peer: CKE before the server's certificates")
	}
	if isECDHE(p.Suite) {
		if p.peerEphPub == nil {
			return nil, errors.New("peer: no server ephemeral key")
		}
		pub, err := p.NewEphemeral()
		if err != nil {
			return nil, err
		}
		pre, err := p.AgreeSM2(p.PeerCerts[1], p.peerEphPub)
		if err != nil {
			return nil, err
		}
		// GrindZero: the client moves last, so it can pick its ephemeral key until the agreed secret begins with a
		// zero byte (about 256 tries) - a legal secret like any other
		for tries := 0; o.GrindZero && pre[0] != 0 && tries < 20000; tries++ {
			if pub, err = p.NewEphemeral(); err != nil {
				return nil, err
			}
			if pre, err = p.AgreeSM2(p.PeerCerts[1], p.peerEphPub); err != nil {
				return nil, err
			}
		}
		p.DeriveMaster(pre)
		b := ECDHEParams(pub)
		if o.VecParams {
			b = append([]byte{byte(len(b) >> 8), byte(len(b))}, b...)
		}
		return b, nil
	}
	pre := append([]byte{byte(p.CH.Vers >> 8), byte(p.CH.Vers)}, p.rnd(46)...)
	b, err := EncryptPreMaster(p.Rand, p.PeerCerts[1], pre)
	if err != nil {
		return nil, err
	}
	p.DeriveMaster(pre)
	return b, nil
}

func (p *Peer) buildCV(o *Opts) ([]byte, error) {
	key := o.CVKey
	if key == nil {
		key = o.SigKey
	}
	tr := p.Transcript
	if o.CV == "other-transcript" {
		tr = append(append([]byte{}, tr...), 0xde, 0xad)
	}
	h := sm3sum(tr)
	var sig []byte
	if o.CV != "empty" {
		var err error
		sig, err = SignSM2(p.Rand, key, h)
		if err != nil {
			return nil, err
		}
		if o.CV == "corrupt" {
			sig[len(sig)/2] ^= 0x20
		}
	}
	return append([]byte{byte(len(sig) >> 8), byte(len(sig))}, sig...), nil
}

// ---------------------------------------------------------------------------
// receiving

func (p *Peer) recvClientHello(o *Opts) error {
	for {
		m, err := p.ReadHandshake()
		if err != nil {
			return err
		}
		if m.Type != ref.TClientHello {
			return fmt.Errorf("peer: expected ClientHello, got %s", ref.MsgName(m.Type))
		}
		ch, err := ref.ParseClientHello(m.Body, p.DTLS)
		if err != nil {
			return err
		}
		if p.DTLS && o.Cookie && len(ch.Cookie) == 0 {
			if err := p.sendKind(o, "HVR"); err != nil {
				return err
			}
			continue
		}
		p.CH = ch
		p.AddTranscript(m)
		return nil
	}
}

// recvFlight reads handshake messages until the message that ends the other
// side's flight, processing what it understands.
func (p *Peer) recvFlight(o *Opts, out *Outcome) error {
	for {
		m, err := p.ReadHandshake()
		if err == ErrCCS {
			continue
		}
		if err != nil {
			if errors.Is(err, ref.ErrBadMAC) {
				// we do not share keys with the other side (impostor without the right secret): its
				// Finished cannot be read; carry on with the script
				out.Unreadable = true
				return nil
			}
			return err
		}
		switch m.Type {
		case ref.TFinished:
			want := p.FinishedData(!p.IsClient)
			out.GotFinished = true
			out.FinishedOK = bytes.Equal(want, m.Body)
			p.AddTranscript(m)
			return nil
		case ref.THelloVerifyRequest:
			// client role: resend the ClientHello with the cookie; neither message enters the transcript
			_, cookie, err := ref.ParseHelloVerifyRequest(m.Body)
			if err != nil {
				return err
			}
			p.CH.Cookie = cookie
			p.Transcript = nil
			if err := p.SendMsg(ref.TClientHello, p.CH.Body(true), false); err != nil {
				return err
			}
			continue
		}
		p.AddTranscript(m)
		switch m.Type {
		case ref.TServerHello:
			sh, err := ref.ParseServerHello(m.Body)
			if err != nil {
				return err
			}
			p.SH, p.Suite = sh, sh.Suite
			if len(o.SessionID) > 0 && bytes.Equal(sh.SessionID, o.SessionID) && o.Master != nil {
				p.Resuming = true
				p.SetMaster(o.Master)
			}
		case ref.TCertificate:
			p.PeerCerts, _ = ref.ParseCertificate(m.Body)
		case ref.TServerKeyExchange:
			if isECDHE(p.Suite) {
				p.peerEphPub, _, _ = ParseECDHEPoint(m.Body)
			}
		case ref.TServerHelloDone:
			return nil
		case ref.TClientKeyExchange:
			p.processCKE(o, m.Body)
		}
	}
}

func (p *Peer) processCKE(o *Opts, body []byte) {
	if p.CH == nil || p.SH == nil {
		return
	}
	if isECDHE(p.Suite) {
		b := body
		if len(b) == 71 {
			b = b[2:]
		}
		eph, _, err := ParseECDHEPoint(b)
		if err == nil && len(p.PeerCerts) >= 2 {
			if pre, err := p.AgreeSM2(p.PeerCerts[1], eph); err == nil {
				p.DeriveMaster(pre)
				return
			}
		}
	} else if o.EncKey != nil {
		if pre, err := DecryptPreMaster(o.EncKey, body); err == nil {
			p.DeriveMaster(pre)
			return
		}
	}
	// cannot learn the pre-master secret: continue with a guess
	p.DeriveMaster(p.rnd(48))
}

func (p *Peer) recvApp() error {
	for {
		n := len(p.AppData)
		_, err := p.ReadHandshake()
		if err != nil && err != ErrCCS {
			return err
		}
		if len(p.AppData) > n {
			return nil
		}
	}
}

// gatherT collects what is sent while on is set, so that several records leave as one datagram.
type gatherT struct {
	Transport
	buf []byte
	on  bool
}

func (g *gatherT) Send(b []byte) error {
	if g.on {
		g.buf = append(g.buf, b...)
		return nil
	}
	return g.Transport.Send(b)
}
