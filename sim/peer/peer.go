// Package peer is a scripted (Byzantine) TLCP/DTLCP client and server built on
// package ref. A peer follows a script of send/receive steps; it keeps its own
// transcript, keys and record protection consistent with what it actually sent
// and received, so that when it deviates the only thing that can stop the real
// endpoint under test is that endpoint's own checks.
package peer

import (
	"crypto"
	"crypto/ecdsa"
	"errors"
	"fmt"
	"io"
	"net"
	"os"
	"time"

	"github.com/emmansun/gmsm/ecdh"
	"github.com/emmansun/gmsm/sm2"
	"github.com/emmansun/gmsm/sm3"
	x509 "github.com/emmansun/gmsm/smx509"

	"verifsim/ref"
)

// Transport is what a peer talks over.
type Transport interface {
	Send(b []byte) error
	Recv() ([]byte, error) // stream: some bytes; datagram: one datagram
}

// StreamT adapts a net.Conn. Timeout, if non-zero, bounds each Recv in (virtual) time.
type StreamT struct {
	C       net.Conn
	Timeout time.Duration
	Now     func() time.Time
}

func (s StreamT) Send(b []byte) error { _, err := s.C.Write(b); return err }
func (s StreamT) Recv() ([]byte, error) {
	buf := make([]byte, 32768)
	if s.Timeout > 0 {
		s.C.SetReadDeadline(s.Now().Add(s.Timeout))
	}
	n, err := s.C.Read(buf)
	if n > 0 {
		return buf[:n], nil
	}
	return nil, err
}

// DgramT adapts a net.PacketConn talking to one remote address.
type DgramT struct {
	P      net.PacketConn
	Remote net.Addr
	// Timeout, if non-zero, bounds each Recv in (virtual) time.
	Timeout time.Duration
	Now     func() time.Time
}

func (d DgramT) Send(b []byte) error { _, err := d.P.WriteTo(b, d.Remote); return err }
func (d DgramT) Recv() ([]byte, error) {
	buf := make([]byte, 65536)
	for {
		if d.Timeout > 0 {
			d.P.SetReadDeadline(d.Now().Add(d.Timeout))
		}
		n, from, err := d.P.ReadFrom(buf)
		if err != nil {
			return nil, err
		}
		if from.String() != d.Remote.String() {
			continue
		}
		return buf[:n], nil
	}
}

var Debug = os.Getenv("VERIF_DEBUG") != ""

// FragSpec is one fragment to send: Off/Len select the bytes, Total is the announced message length
// (0 = the true length), Data overrides the bytes (nil = the true bytes).
type FragSpec struct {
	Off, Len int
	Total    int
	Data     []byte
	SeqOff   int  // added to the message's message_seq (fragments of messages that do not exist)
	Type     byte // handshake type in the fragment header (0: the current message's)
	DelayMs  int  // pause before this fragment is sent (needs Peer.Sleep)
}

// AlertError is returned when the other side sent an alert.
type AlertError struct{ Level, Desc byte }

func (a AlertError) Error() string { return fmt.Sprintf("peer: received alert %d/%d", a.Level, a.Desc) }

// Peer is the record + handshake layer of a scripted endpoint.
type Peer struct {
	// Sleep, if set, pauses the peer (virtual time); used for fragments that arrive late
	Sleep    func(time.Duration)
	packing  bool
	packed   bool
	packBuf  []byte
	DTLS     bool
	IsClient bool
	T        Transport
	Rand     io.Reader
	Vers     uint16

	rbuf []byte
	rq   []ref.Record

	wProt, rProt   *ref.Protect
	nextW, nextR   *ref.Protect
	wSeq, rSeq     uint64
	wEpoch, rEpoch uint16

	hsIn   []byte
	reasm  *ref.Reassembler
	hsQ    []ref.Msg
	MsgSeq uint16
	// MaxFrag > 0 fragments outgoing DTLCP handshake messages into pieces of that many body bytes.
	MaxFrag int
	// FragPlan, if set, decides for each outgoing DTLCP message how it is cut: it returns the list of
	// fragments to send, in order (each in its own record and datagram). nil = send unfragmented.
	FragPlan func(typ byte, body []byte) []FragSpec
	// OneRecordPerDatagram sends every record in its own datagram (default: one message per datagram anyway).

	Transcript []byte
	// Sent / Received list the kinds of everything sent / received, in order ("CH","SH","CCS","ALERT(2,40)","APP"...).
	Sent, Received []string
	Alerts         [][2]byte
	AppData        [][]byte
	// RandNonce: GCM records carry an explicit nonce that is not the sequence number (six random bytes, then a
	// counter)
	RandNonce bool

	// negotiation state
	CH        *ref.ClientHello
	SH        *ref.ServerHello
	Suite     uint16
	Master    []byte
	PreMaster []byte
	PeerCerts [][]byte
	Resuming  bool
	// ECDHE
	ephPriv    *ecdh.PrivateKey
	peerEphPub *ecdh.PublicKey
	OwnEncKey  *sm2.PrivateKey // own static key for SM2 key agreement
	OwnEncCert []byte
}

func New(dtls, isClient bool, t Transport, rnd io.Reader) *Peer {
	return &Peer{DTLS: dtls, IsClient: isClient, T: t, Rand: rnd, Vers: ref.Version, reasm: ref.NewReassembler()}
}

func (p *Peer) rnd(n int) []byte {
	b := make([]byte, n)
	io.ReadFull(p.Rand, b)
	return b
}

// ---------------------------------------------------------------------------
// record layer

// WriteRecord protects (if active) and sends one record.
func (p *Peer) WriteRecord(typ byte, payload []byte) error {
	if p.packing && typ == ref.RecHandshake {
		// several handshake messages in one record: collected until EndPack
		p.packBuf = append(p.packBuf, payload...)
		p.packed = true
		return nil
	}
	return p.T.Send(p.SealRecord(typ, payload))
}

// BeginPack makes the following handshake messages share one record; EndPack sends it.
func (p *Peer) BeginPack() { p.packing, p.packBuf, p.packed = true, nil, false }

func (p *Peer) EndPack() error {
	p.packing = false
	if !p.packed {
		return nil
	}
	b := p.packBuf
	p.packBuf, p.packed = nil, false
	return p.T.Send(p.SealRecord(ref.RecHandshake, b))
}

// SealRecord builds the wire form of one record and advances the sequence number.
func (p *Peer) SealRecord(typ byte, payload []byte) []byte {
	frag := payload
	if p.wProt != nil {
		sb := ref.SeqBytes(p.DTLS, p.wEpoch, p.wSeq)
		var explicit []byte
		if p.wProt.IsGCM() && p.RandNonce {
			// the explicit part of the nonce is the sender's choice (it only has to be unique per key)
			explicit = append(p.rnd(6), byte(p.wSeq>>8), byte(p.wSeq))
		} else if p.wProt.IsGCM() {
			explicit = sb[:]
		} else {
			explicit = p.rnd(16)
		}
		frag = p.wProt.Seal(sb, typ, p.Vers, payload, explicit)
	}
	rec := ref.BuildRecord(p.DTLS, typ, p.Vers, p.wEpoch, p.wSeq, frag)
	p.wSeq++
	return rec
}

// ReadRecord returns the next record, opened if read protection is active.
func (p *Peer) ReadRecord() (typ byte, payload []byte, err error) {
	for len(p.rq) == 0 {
		if p.DTLS {
			d, err := p.T.Recv()
			if err != nil {
				return 0, nil, err
			}
			recs, _ := ref.ParseRecords(d, true)
			p.rq = append(p.rq, recs...)
			continue
		}
		recs, rest := ref.ParseRecords(p.rbuf, false)
		if len(recs) > 0 {
			p.rq = append(p.rq, recs...)
			p.rbuf = append([]byte{}, rest...)
			break
		}
		b, err := p.T.Recv()
		if err != nil {
			return 0, nil, err
		}
		p.rbuf = append(p.rbuf, b...)
	}
	r := p.rq[0]
	p.rq = p.rq[1:]
	payload = r.Frag
	if Debug {
		fmt.Fprintf(os.Stderr, "peer(client=%v) record type=%d epoch=%d seq=%d len=%d rProt=%v nextR=%v\n", p.IsClient, r.Type, r.Epoch, r.Seq, len(r.Frag), p.rProt != nil, p.nextR != nil)
	}
	protected := p.rProt != nil
	if p.DTLS {
		protected = r.Epoch > 0 && p.rProt != nil
		if r.Epoch > 0 && p.rProt == nil && p.nextR != nil {
			// the other side switched before we processed its CCS (same datagram): activate
			p.rProt, p.nextR = p.nextR, nil
			p.rEpoch = r.Epoch
			protected = true
		}
	}
	if protected {
		var sb [8]byte
		if p.DTLS {
			sb = ref.SeqBytes(true, r.Epoch, r.Seq)
		} else {
			sb = ref.SeqBytes(false, 0, p.rSeq)
			p.rSeq++
		}
		plain, _, err := p.rProt.Open(sb, r.Type, r.Vers, r.Frag)
		if err != nil {
			return r.Type, nil, fmt.Errorf("peer: cannot open record type %d: %w", r.Type, err)
		}
		payload = plain
	}
	return r.Type, payload, nil
}

// ErrCCS / ErrApp are returned by ReadHandshake when another record type arrives.
var ErrCCS = errors.New("peer: change cipher spec received")

// ReadHandshake returns the next handshake message. CCS, alerts and
// application data are reported through the error (and recorded).
func (p *Peer) ReadHandshake() (ref.Msg, error) {
	for len(p.hsQ) == 0 {
		typ, pl, err := p.ReadRecord()
		if err != nil {
			return ref.Msg{}, err
		}
		switch typ {
		case ref.RecHandshake:
			if p.DTLS {
				frs, rest := ref.SplitFragments(pl)
				if Debug {
					fmt.Fprintf(os.Stderr, "  handshake payload %d bytes -> %d fragments, rest %d: %x\n", len(pl), len(frs), len(rest), pl[:min(len(pl), 16)])
				}
				for _, f := range frs {
					if m := p.reasm.Add(f); m != nil {
						p.hsQ = append(p.hsQ, *m)
					}
				}
			} else {
				p.hsIn = append(p.hsIn, pl...)
				msgs, rest := ref.SplitStream(p.hsIn)
				p.hsIn = append([]byte{}, rest...)
				for _, m := range msgs {
					mm := ref.Msg{Type: m.Type, Body: append([]byte{}, m.Body...)}
					p.hsQ = append(p.hsQ, mm)
				}
			}
		case ref.RecCCS:
			p.Received = append(p.Received, "CCS")
			if p.nextR != nil {
				p.rProt, p.nextR = p.nextR, nil
				p.rSeq = 0
				p.rEpoch++
			}
			return ref.Msg{}, ErrCCS
		case ref.RecAlert:
			if len(pl) == 2 {
				p.Alerts = append(p.Alerts, [2]byte{pl[0], pl[1]})
				p.Received = append(p.Received, fmt.Sprintf("ALERT(%d,%d)", pl[0], pl[1]))
				if pl[0] == 2 || pl[1] == 0 {
					return ref.Msg{}, AlertError{pl[0], pl[1]}
				}
			}
		case ref.RecAppData:
			p.AppData = append(p.AppData, pl)
			p.Received = append(p.Received, "APP")
		}
	}
	m := p.hsQ[0]
	p.hsQ = p.hsQ[1:]
	p.Received = append(p.Received, ref.MsgName(m.Type))
	return m, nil
}

// SendMsg sends a handshake message (fragmenting if configured) and, unless
// skipTranscript, appends its canonical encoding to the transcript.
func (p *Peer) SendMsg(typ byte, body []byte, skipTranscript bool) error {
	m := ref.Msg{Type: typ, Body: body, Seq: p.MsgSeq}
	if p.DTLS {
		p.MsgSeq++
	}
	if !skipTranscript {
		p.Transcript = append(p.Transcript, m.Encode(p.DTLS)...)
	}
	p.Sent = append(p.Sent, ref.MsgName(typ))
	if !p.DTLS {
		enc := m.Encode(false)
		for len(enc) > 0 {
			n := len(enc)
			if n > 16384 {
				n = 16384
			}
			if err := p.WriteRecord(ref.RecHandshake, enc[:n]); err != nil {
				return err
			}
			enc = enc[n:]
		}
		return nil
	}
	if p.FragPlan != nil {
		if plan := p.FragPlan(typ, body); plan != nil {
			for _, f := range plan {
				if f.DelayMs > 0 && p.Sleep != nil {
					p.Sleep(time.Duration(f.DelayMs) * time.Millisecond)
				}
				total := f.Total
				if total == 0 {
					total = len(body)
				}
				data := f.Data
				if data == nil {
					end := f.Off + f.Len
					if end > len(body) {
						// beyond the message: pad
						data = append(append([]byte{}, body[min(f.Off, len(body)):]...), make([]byte, end-max(len(body), f.Off))...)
					} else {
						data = body[f.Off:end]
					}
				}
				h := make([]byte, 12, 12+len(data))
				h[0] = typ
				if f.Type != 0 {
					h[0] = f.Type
				}
				h[1], h[2], h[3] = byte(total>>16), byte(total>>8), byte(total)
				fs := m.Seq + uint16(f.SeqOff)
				h[4], h[5] = byte(fs>>8), byte(fs)
				h[6], h[7], h[8] = byte(f.Off>>16), byte(f.Off>>8), byte(f.Off)
				h[9], h[10], h[11] = byte(len(data)>>16), byte(len(data)>>8), byte(len(data))
				if err := p.WriteRecord(ref.RecHandshake, append(h, data...)); err != nil {
					return err
				}
			}
			return nil
		}
	}
	if p.MaxFrag <= 0 || len(body) <= p.MaxFrag {
		return p.WriteRecord(ref.RecHandshake, m.Encode(true))
	}
	for off := 0; off < len(body); off += p.MaxFrag {
		n := p.MaxFrag
		if off+n > len(body) {
			n = len(body) - off
		}
		if err := p.WriteRecord(ref.RecHandshake, m.Fragment(off, n)); err != nil {
			return err
		}
	}
	return nil
}

// SwitchKeysSilently activates the pending write protection as SendCCS does, without sending the record.
func (p *Peer) SwitchKeysSilently() {
	p.Sent = append(p.Sent, "CCS0")
	if p.nextW != nil {
		p.wProt, p.nextW = p.nextW, nil
		p.wSeq = 0
		p.wEpoch++
	} else if p.DTLS {
		p.wEpoch++
		p.wSeq = 0
	}
}

// SendCCS sends ChangeCipherSpec and activates the pending write protection (if any).
func (p *Peer) SendCCS() error {
	p.Sent = append(p.Sent, "CCS")
	err := p.WriteRecord(ref.RecCCS, []byte{1})
	if p.nextW != nil {
		p.wProt, p.nextW = p.nextW, nil
		p.wSeq = 0
		p.wEpoch++
	} else if p.DTLS {
		p.wEpoch++
		p.wSeq = 0
	}
	return err
}

func (p *Peer) SendAlert(level, desc byte) error {
	p.Sent = append(p.Sent, fmt.Sprintf("ALERT(%d,%d)", level, desc))
	return p.WriteRecord(ref.RecAlert, []byte{level, desc})
}

func (p *Peer) SendApp(data []byte) error {
	p.Sent = append(p.Sent, "APP")
	return p.WriteRecord(ref.RecAppData, data)
}

// SetWritePad makes the following protected CBC records carry blocks extra blocks of padding.
func (p *Peer) SetWritePad(blocks int) {
	if p.wProt != nil {
		p.wProt.ExtraPad = blocks
	}
}

// AddTranscript appends a received message.
func (p *Peer) AddTranscript(m ref.Msg) { p.Transcript = append(p.Transcript, m.Encode(p.DTLS)...) }

// ---------------------------------------------------------------------------
// keys

// SetMaster installs the master secret and prepares both directions' protection.
func (p *Peer) SetMaster(master []byte) {
	p.Master = master
	k := ref.KeyBlock(p.Suite, master, p.CH.Random, p.SH.Random)
	c := ref.NewProtect(p.Suite, k.ClientKey, k.ClientIV, k.ClientMAC)
	s := ref.NewProtect(p.Suite, k.ServerKey, k.ServerIV, k.ServerMAC)
	if p.IsClient {
		p.nextW, p.nextR = c, s
	} else {
		p.nextW, p.nextR = s, c
	}
}

func (p *Peer) DeriveMaster(pre []byte) {
	p.PreMaster = pre
	p.SetMaster(ref.MasterSecret(pre, p.CH.Random, p.SH.Random))
}

// FinishedData computes verify_data over the peer's own transcript.
func (p *Peer) FinishedData(client bool) []byte {
	m := p.Master
	if m == nil {
		m = make([]byte, 48)
	}
	return ref.Finished(m, client, p.Transcript)
}

// ---------------------------------------------------------------------------
// message construction helpers

func sm3sum(b []byte) []byte {
	h := sm3.Sum(b)
	return h[:]
}

func isECDHE(s uint16) bool { return s == 0xe051 || s == 0xe011 }

// SignSM2 signs msg with SM2-with-SM3 (default user id), ASN.1 encoded.
func SignSM2(rnd io.Reader, key crypto.PrivateKey, msg []byte) ([]byte, error) {
	sk, ok := key.(*sm2.PrivateKey)
	if !ok {
		return nil, fmt.Errorf("peer: not an SM2 key: %T", key)
	}
	return sk.Sign(rnd, msg, sm2.NewSM2SignerOption(true, nil))
}

// ECCSignedParams is what an ECC-suite ServerKeyExchange signs:
// client_random || server_random || uint24 length || encryption certificate.
func ECCSignedParams(cr, sr, encCert []byte) []byte {
	out := append(append([]byte{}, cr...), sr...)
	n := len(encCert)
	out = append(out, byte(n>>16), byte(n>>8), byte(n))
	return append(out, encCert...)
}

// ECDHEParams is ServerECDHParams / ClientECDHParams: named_curve(3), curve id 41, point.
func ECDHEParams(pub *ecdh.PublicKey) []byte {
	pt := pub.Bytes()
	out := []byte{3, 0, 41, byte(len(pt))}
	return append(out, pt...)
}

func certPub(der []byte) (*ecdsa.PublicKey, error) {
	c, err := x509.ParseCertificate(der)
	if err != nil {
		return nil, err
	}
	pk, ok := c.PublicKey.(*ecdsa.PublicKey)
	if !ok {
		return nil, fmt.Errorf("peer: certificate key is %T", c.PublicKey)
	}
	return pk, nil
}

// NewEphemeral creates the peer's ephemeral SM2 key pair.
func (p *Peer) NewEphemeral() (*ecdh.PublicKey, error) {
	k, err := ecdh.P256().GenerateKey(p.Rand)
	if err != nil {
		return nil, err
	}
	p.ephPriv = k
	return k.PublicKey(), nil
}

// AgreeSM2 computes the ECDHE pre-master secret from own static+ephemeral keys
// and the other side's static public key (from its encryption certificate) and
// ephemeral public key. The server is the sponsor, the client the responder.
func (p *Peer) AgreeSM2(peerEncCert []byte, peerEph *ecdh.PublicKey) ([]byte, error) {
	if p.OwnEncKey == nil || p.ephPriv == nil {
		return nil, errors.New("peer: missing own keys for SM2 key agreement")
	}
	own, err := p.OwnEncKey.ECDH()
	if err != nil {
		return nil, err
	}
	pk, err := certPub(peerEncCert)
	if err != nil {
		return nil, err
	}
	peerPub, err := sm2.PublicKeyToECDH(pk)
	if err != nil {
		return nil, err
	}
	z, err := own.SM2MQV(p.ephPriv, peerPub, peerEph)
	if err != nil {
		return nil, err
	}
	return z.SM2SharedKey(p.IsClient, 48, own.PublicKey(), peerPub, nil, nil)
}

// ParseECDHEPoint extracts the ephemeral public key from ServerECDHParams /
// ClientECDHParams (optionally with a 2-byte vector length in front).
func ParseECDHEPoint(b []byte) (*ecdh.PublicKey, int, error) {
	if len(b) < 4 {
		return nil, 0, errors.New("peer: short ECDH params")
	}
	n := int(b[3])
	if len(b) < 4+n {
		return nil, 0, errors.New("peer: short ECDH point")
	}
	k, err := ecdh.P256().NewPublicKey(b[4 : 4+n])
	return k, 4 + n, err
}

// EncryptPreMaster builds the ECC ClientKeyExchange body for a pre-master secret.
func EncryptPreMaster(rnd io.Reader, encCert []byte, pre []byte) ([]byte, error) {
	pk, err := certPub(encCert)
	if err != nil {
		return nil, err
	}
	ct, err := sm2.Encrypt(rnd, pk, pre, sm2.ASN1EncrypterOpts)
	if err != nil {
		return nil, err
	}
	return append([]byte{byte(len(ct) >> 8), byte(len(ct))}, ct...), nil
}

// DecryptPreMaster opens an ECC ClientKeyExchange body.
func DecryptPreMaster(key *sm2.PrivateKey, body []byte) ([]byte, error) {
	if len(body) < 2 {
		return nil, errors.New("peer: short ClientKeyExchange")
	}
	return key.Decrypt(nil, body[2:], sm2.ASN1DecrypterOpts)
}
