package props

import (
	"encoding/binary"
	"encoding/json"
	"fmt"
	"io"
	"net"
	"sort"
	"time"

	"gitee.com/Trisia/gotlcp/pa"
	"gitee.com/Trisia/gotlcp/tlcp"
	"gitee.com/Trisia/gotlcp/vs"

	"verifsim/simnet"
)

// C13 — concurrent use of one connection: race-free, deadlock-free, writes whole.
type c13 struct{}

func init() { Register(c13{}) }

type c13Params struct {
	Scenario string `json:"scenario"` // established | first-use | close-race | close-blocked | pa-first-use
	Stack    string `json:"stack"`
	Suite    uint16 `json:"suite"`
	Writers  int    `json:"writers"`
	Readers  int    `json:"readers"`
	Frames   int    `json:"frames"`  // frames per writer
	Inbound  int    `json:"inbound"` // frames the peer sends to the connection under test
	Aux      int    `json:"aux"`     // ConnectionState / deadline-setter tasks
	Seg      int    `json:"seg"`
	CloseAt  int    `json:"close_at"` // close-race: the closer waits this many of its own yields
	FrameLen int    `json:"frame_len"` // bytes per written frame (above one record's worth when large)
	// Dwell (dtlcp, established): the connection under test is the SERVER end, which sent the last flight of
	// the handshake; copies of the client's last flight are delivered to it again Dwell times while the callers
	// are at work (the endpoint answers them by re-sending its own last flight from inside Read)
	Dwell int `json:"dwell,omitempty"`
	// Oversize (tlcp, close-race): after its frames the peer writes a record header announcing 65535 bytes straight
	// to the transport: a reader of the connection under test answers with a fatal alert while writers are at work
	Oversize bool `json:"oversize,omitempty"`
	// BadAddr (dtlcp): an auxiliary task calls WriteTo with an address that is not the peer's (it must be
	// refused and leave no trace: Close at the end still returns)
	BadAddr bool `json:"bad_addr,omitempty"`
	// SmallRead (dtlcp, established): reader 0 uses Read with a buffer smaller than a datagram (the rest of the
	// datagram comes with its next Read), the other readers use ReadFrom; all read until nothing arrives any more
	SmallRead bool `json:"small_read,omitempty"`
	// HSBy (close-hs): which call starts the handshake that Close races with: handshake | read | write
	HSBy string `json:"hs_by,omitempty"`
	Role string `json:"role,omitempty"` // close-hs: client | server end under test
	// UTServer (established, first-use, close-race): the connection the callers share is the server end (which
	// sends the last flight of a full handshake), not the client end
	UTServer bool `json:"ut_server,omitempty"`
	// LateMs (first-use): writer 0 makes its first call only this many milliseconds of virtual time after the others
	// (network latency is one millisecond: it arrives while some flight of the handshake is being processed)
	LateMs int `json:"late_ms,omitempty"`
	// Kick (tlcp, established): one more task sets the read deadline into the past and clears it again,
	// several times, while the readers are at work; a reader that is told "timeout" simply reads again. No byte
	// may get lost over it (records arrive in pieces when Seg is 1)
	Kick bool `json:"kick,omitempty"`
}

func (c13) ID() string    { return "C13" }
func (c13) Level() string { return "exploration" }
func (c13) Rule() string {
	return "each case draws a scenario (established connection / first use racing with the handshake / Close racing with in-flight calls / Close against Writes blocked in a full transport / a write deadline set by another task expiring while Writes are blocked, then cleared / Close racing with a handshake in flight whose peer is silent / pa adapter first use; on dtlcp also one reader using Read with a buffer smaller than a datagram next to ReadFrom readers, and the server end while copies of the client's last flight make it re-send its own from inside Read), stack (tlcp, dtlcp with ReadFrom+WriteTo), suite, 1-3 writer tasks, 1-3 reader tasks, 0-2 auxiliary tasks (ConnectionState, deadline setters, extra Handshake callers) on ONE connection, and a seeded schedule: the vs kernel decides every pre-emption at every mutex operation, atomic operation and transport call of the library. Built with -race; the kernel's hand-over is invisible to the race detector, so an unsynchronised access pair is reported whatever the distance between the two accesses. Oracle: no race report, no deadlock, every Handshake caller sees the same result, every successful Write appears contiguously and exactly once in the peer's stream, frames delivered to concurrent readers are exactly the frames sent (no loss, no duplicate), after Close every pending call returns. Also: Close on a full transport with no Write in flight (the last one gave up at its deadline) and a Read pending (close-full); the shared connection may be the server end; in first-use one caller makes its first call 1-5 ms late, the instants at which handshake flights arrive. On established stream connections, in half of the cases, one more task keeps setting the read deadline into the past and clearing it while the readers work (a reader told 'timeout' reads again): no byte may be lost. distinct = distinct schedule traces; non-trivial = at least two tasks were in calls on the connection at the same time (kernel counts lock contention / interleaved steps)"
}
func (c13) Components() (real, stub []string) {
	return []string{"tlcp.Conn, dtlcp.Conn, pa.ProtocolSwitchServerConn (instrumented): all locking and atomics real (sync.Mutex via TryLock loop)", "Go race detector"},
		[]string{"transport, clock, randomness", "goroutine scheduling (vs kernel: one task at a time, seeded)"}
}
func (c13) Assumptions() []string {
	return []string{"pre-emption points are the library's mutex operations, sync/atomic calls, atomic-method calls and transport calls; code between two such points runs atomically in the simulation (the race detector still sees every access)", "the race detector's bounded access history can miss (never invent) a race whose first access is very old"}
}
func (c13) Count(tier string) int {
	if tier == "thorough" {
		return 100000
	}
	return 4000
}
func (c13) Make(tier string, seed uint64, i int) *Case {
	return &Case{Prop: "C13", Index: i, Seed: CaseSeed(seed, "C13", i)}
}

func drawC13(src *vs.Src) *c13Params {
	p := &c13Params{}
	switch src.Intn(10) {
	case 0, 1, 2:
		p.Scenario = "established"
	case 3, 4, 5:
		p.Scenario = "first-use"
	case 6, 7:
		p.Scenario = "close-race"
	case 8:
		p.Scenario = "close-blocked"
	default:
		p.Scenario = "pa-first-use"
	}
	p.Stack = pickStr(src, []string{TLCP, TLCP, DTLCP})
	if p.Scenario == "pa-first-use" || p.Scenario == "close-blocked" {
		p.Stack = TLCP
	}
	p.Suite = AllSuites[src.Intn(2)] // ECC suites: the handshake is not what is under test here
	p.Writers = 1 + src.Intn(3)
	p.Readers = 1 + src.Intn(3)
	p.Frames = 1 + src.Intn(4)
	p.Inbound = 1 + src.Intn(6)
	p.Aux = src.Intn(3)
	p.Seg = src.Intn(2)
	p.CloseAt = src.Intn(12)
	p.FrameLen = c13FrameLen
	if p.Stack == TLCP && src.Bool(1, 3) {
		p.FrameLen = 2500 + src.Intn(3000) // several records per Write while the record size ramps up
	}
	if p.Stack == DTLCP && p.Scenario == "established" && src.Bool(1, 2) {
		p.Dwell = 1 + src.Intn(3)
	} else if p.Stack == DTLCP && p.Scenario == "established" && src.Bool(1, 2) {
		p.SmallRead = true
		if p.Readers < 2 {
			p.Readers = 2
		}
		p.Inbound = 4 + src.Intn(8)
	}
	if p.Scenario == "close-race" && p.Stack == TLCP {
		p.Oversize = src.Bool(1, 2)
	}
	if p.Stack == DTLCP && (p.Scenario == "established" || p.Scenario == "close-race") {
		p.BadAddr = src.Bool(1, 2)
	}
	if p.Scenario == "established" || p.Scenario == "first-use" || p.Scenario == "close-race" {
		p.UTServer = src.Bool(1, 3)
	}
	if p.Scenario == "first-use" && src.Bool(2, 3) {
		// (the flights of a handshake arrive at 1, 2, ... 5 ms)
		p.LateMs = 1 + src.Intn(5)
		p.UTServer = src.Bool(1, 2)
		if p.Stack == TLCP && src.Bool(1, 2) {
			p.Stack = DTLCP
		}
	}
	if p.Stack == TLCP && p.Scenario == "established" && src.Bool(1, 2) {
		// (not with first-use: a read deadline that expires inside the handshake fails the handshake, as it should)
		p.Kick, p.Seg = true, 1
	}
	if p.Scenario == "close-blocked" && src.Bool(1, 3) {
		// the write deadline, set by another task, expires while Writes are blocked in a full transport; it is
		// cleared again, the peer starts reading, the writers go on
		p.Scenario = "deadline-blocked"
	} else if p.Scenario == "close-blocked" && src.Bool(1, 2) {
		p.Scenario = "close-hs"
		p.HSBy = pickStr(src, []string{"handshake", "read", "write"})
		p.Role = pickStr(src, []string{"client", "server"})
	} else if p.Scenario == "close-blocked" && src.Bool(1, 2) {
		// nobody is inside Write any more (the last one gave up at its deadline), the transport is still full, a
		// Read is pending
		p.Scenario = "close-full"
	}
	return p
}

const c13FrameLen = 48

// frame: magic(2) writer(1) counter(2) then filler derived from both
func c13Frame(writer, counter int) []byte { return c13FrameN(writer, counter, c13FrameLen) }

func c13FrameN(writer, counter, n int) []byte {
	b := make([]byte, n)
	b[0], b[1], b[2] = 0xC1, 0x3F, byte(writer)
	binary.BigEndian.PutUint16(b[3:5], uint16(counter))
	for i := 5; i < len(b); i++ {
		b[i] = byte(writer*31 + counter*7 + i)
	}
	return b
}

func c13ParseFrames(stream []byte) (ids [][2]int, bad string) {
	return c13ParseFramesN(stream, c13FrameLen)
}

func c13ParseFramesN(stream []byte, flen int) (ids [][2]int, bad string) {
	for len(stream) > 0 {
		if len(stream) < flen {
			return ids, fmt.Sprintf("trailing %d bytes do not form a frame", len(stream))
		}
		f := stream[:flen]
		w, c := int(f[2]), int(binary.BigEndian.Uint16(f[3:5]))
		if f[0] != 0xC1 || f[1] != 0x3F || string(f) != string(c13FrameN(w, c, flen)) {
			return ids, fmt.Sprintf("frame #%d is torn or interleaved with another write", len(ids))
		}
		ids = append(ids, [2]int{w, c})
		stream = stream[flen:]
	}
	return ids, ""
}

type c13Task struct {
	Name   string
	HSErr  error
	HSDone bool
	OK     []int // counters of frames whose Write succeeded
	Failed []int
	Got    [][]byte // frames received (readers)
	End    error
	Done   bool
}

// c13Conn abstracts the operations used on the connection under test.
type c13Conn interface {
	Handshake() error
	Read([]byte) (int, error)
	Write([]byte) (int, error)
	Close() error
}

type c13D struct{ dEP }

func (d c13D) Read(b []byte) (int, error) {
	n, _, err := d.Conn.ReadFrom(b)
	return n, err
}
func (d c13D) Write(b []byte) (int, error) { return d.Conn.WriteTo(b, d.Conn.RemoteAddr()) }

func (c13) Run(c *Case, src *vs.Src) *Result {
	r := &Result{}
	var p *c13Params
	if c.P != nil {
		p = &c13Params{}
		if err := json.Unmarshal(c.P, p); err != nil {
			r.Infra = "bad params: " + err.Error()
			return r
		}
	} else {
		p = drawC13(src)
	}
	r.Sample = p
	if p.Scenario == "pa-first-use" {
		return runC13PA(c, src, p, r)
	}
	if p.Scenario == "close-blocked" {
		return runC13Blocked(c, src, p, r)
	}
	if p.Scenario == "close-hs" {
		return runC13CloseHS(c, src, p, r)
	}
	if p.Scenario == "deadline-blocked" {
		return runC13DeadlineBlocked(c, src, p, r)
	}
	if p.Scenario == "close-full" {
		return runC13CloseFull(c, src, p, r)
	}
	w := NewWorld(c.Seed, src)
	w.K.MaxElapsed = 120 * time.Second
	w.K.MaxSteps = 400000
	env := NewEnv(w)
	cc := &EPConf{Suites: []uint16{p.Suite}, ServerName: "server.test"}
	sc := &EPConf{Suites: []uint16{p.Suite}, Certs: []string{"server_sig", "server_enc"}}
	pair := NewPair(p.Stack, env, cc, sc, "c", "s", "client:1", "server:443")
	if pair.Pipe != nil {
		pair.Pipe.C.Seg, pair.Pipe.S.Seg = p.Seg, p.Seg
	}
	// connection under test: the client end; the peer (server end) is driven by two tasks
	utEP, peerEP := pair.C, pair.S
	if p.Dwell > 0 || p.UTServer {
		utEP, peerEP = pair.S, pair.C
	}
	var ut c13Conn = utEP
	var peer c13Conn = peerEP
	if p.Stack == DTLCP {
		ut, peer = c13D{utEP.(dEP)}, c13D{peerEP.(dEP)}
	}
	sigp := fmt.Sprintf("C13 %s %s", p.Stack, p.Scenario)
	var tasks []*c13Task
	newTask := func(name string) *c13Task {
		t := &c13Task{Name: name}
		tasks = append(tasks, t)
		return t
	}
	// --- peer side
	peerSink := newTask("peer-sink")
	peerSrc := newTask("peer-source")
	var sinkStream []byte
	expectFrames := p.Writers * p.Frames
	w.Go("peer-sink", func() {
		defer func() { peerSink.Done = true }()
		if peerSink.HSErr = peer.Handshake(); peerSink.HSErr != nil {
			return
		}
		buf := make([]byte, 4096)
		for {
			if p.Scenario != "close-race" && len(sinkStream) >= expectFrames*p.FrameLen {
				return
			}
			if p.Stack == DTLCP {
				peerEP.SetReadDeadline(vs.Now().Add(5 * time.Second))
			}
			n, err := peer.Read(buf)
			sinkStream = append(sinkStream, buf[:n]...)
			if err != nil {
				peerSink.End = err
				return
			}
		}
	})
	w.Go("peer-source", func() {
		defer func() { peerSrc.Done = true }()
		if peerSrc.HSErr = peer.Handshake(); peerSrc.HSErr != nil {
			return
		}
		for i := 0; i < p.Inbound; i++ {
			if _, err := peer.Write(c13Frame(200, i)); err != nil {
				peerSrc.End = err
				return
			}
		}
		if p.Oversize && pair.Pipe != nil {
			raw := pair.Pipe.S // the peer's end of the transport
			if p.UTServer {
				raw = pair.Pipe.C
			}
			raw.Write([]byte{23, 1, 1, 0xff, 0xff})
		}
	})
	// --- connection under test
	established := p.Scenario != "first-use"
	var hsTask *c13Task
	start := func(body func()) func() {
		return body
	}
	_ = start
	if established {
		hsTask = newTask("ut-handshake")
	}
	var writers, readers []*c13Task
	inboundLeft := p.Inbound
	spawnUsers := func() {
		for i := 0; i < p.Writers; i++ {
			t := newTask(fmt.Sprintf("ut-writer%d", i))
			writers = append(writers, t)
			id := i
			w.Go(t.Name, func() {
				defer func() { t.Done = true }()
				if id == 0 && p.LateMs > 0 {
					vs.Sleep(time.Duration(p.LateMs) * time.Millisecond)
				}
				for k := 0; k < p.Frames; k++ {
					n, err := ut.Write(c13FrameN(id, k, p.FrameLen))
					if err != nil || n != p.FrameLen {
						t.Failed = append(t.Failed, k)
						t.End = err
						if err == nil {
							t.End = fmt.Errorf("short write %d", n)
						}
						return
					}
					t.OK = append(t.OK, k)
				}
			})
		}
		for i := 0; i < p.Readers; i++ {
			t := newTask(fmt.Sprintf("ut-reader%d", i))
			readers = append(readers, t)
			small := p.SmallRead && i == 0
			w.Go(t.Name, func() {
				defer func() { t.Done = true }()
				buf := make([]byte, 1024)
				if small {
					buf = make([]byte, 20)
				}
				kicked := 0
				for {
					if p.Scenario != "close-race" && !p.SmallRead && takeInbound(&inboundLeft) == false {
						return
					}
					if p.Stack == DTLCP {
						utEP.SetReadDeadline(vs.Now().Add(5 * time.Second))
					}
					var n int
					var err error
				again:
					if small {
						n, err = utEP.Read(buf)
					} else {
						n, err = ut.Read(buf)
					}
					if err != nil && n == 0 && p.Kick && isTimeout(err) && kicked < 200 {
						kicked++ // somebody else's deadline: read again (the same frame is still due)
						goto again
					}
					if p.SmallRead && err != nil && isTimeout(err) {
						return // nothing arrives any more
					}
					if n > 0 {
						t.Got = append(t.Got, append([]byte(nil), buf[:n]...))
					}
					if err != nil {
						t.End = err
						return
					}
				}
			})
		}
		for i := 0; i < p.Aux; i++ {
			t := newTask(fmt.Sprintf("ut-aux%d", i))
			kind := i
			w.Go(t.Name, func() {
				defer func() { t.Done = true }()
				switch kind % 3 {
				case 0:
					for k := 0; k < 3; k++ {
						_ = utEP.CS()
					}
				case 1:
					t.HSErr = ut.Handshake()
					t.HSDone = true
					_ = utEP.CS()
				case 2:
					utEP.SetReadDeadline(time.Time{})
					t.HSErr = ut.Handshake()
					t.HSDone = true
				}
			})
		}
		if p.Kick {
			t := newTask("ut-kicker")
			w.Go(t.Name, func() {
				defer func() { t.Done = true }()
				for k := 0; k < 6; k++ {
					for i := 0; i <= p.CloseAt%4; i++ {
						vs.Yield()
					}
					utEP.SetReadDeadline(vs.Now().Add(-time.Second))
					for i := 0; i <= (p.CloseAt+k)%3; i++ {
						vs.Yield()
					}
					utEP.SetReadDeadline(time.Time{})
				}
			})
		}
		if p.Dwell > 0 {
			t := newTask("net-dwell")
			w.Go(t.Name, func() {
				defer func() { t.Done = true }()
				// the client's last flight (the datagrams that begin with a ChangeCipherSpec record), delivered again
				var last []*simnet.Dgram
				for _, d := range pair.Net.SentLog() {
					if d.Dir == simnet.DirC2S && len(d.Data) > 13 && d.Data[0] == 20 {
						last = append(last, d)
					}
				}
				for k := 0; k < p.Dwell && len(last) > 0; k++ {
					for i := 0; i < p.CloseAt; i++ {
						vs.Yield()
					}
					d := last[len(last)-1]
					// deliverable at once: the readers meet it while the writers are still at work (virtual time only
					// moves when every task is blocked)
					pair.Net.Inject(&simnet.Dgram{Data: d.Data, From: d.From, To: d.To, Dir: simnet.DirC2S, At: vs.Now()})
					r.Stat("dwell_copies_injected", 1)
				}
			})
		}
		if p.BadAddr {
			t := newTask("ut-badaddr")
			w.Go(t.Name, func() {
				defer func() { t.Done = true }()
				for i := 0; i < p.CloseAt%5; i++ {
					vs.Yield()
				}
				if _, err := utEP.(dEP).Conn.WriteTo([]byte("to somebody else"), simnet.Addr("stranger:9")); err == nil {
					t.End = fmt.Errorf("WriteTo to an address that is not the peer's returned nil")
				}
			})
		}
		if p.Scenario == "close-race" {
			t := newTask("ut-closer")
			w.Go(t.Name, func() {
				defer func() { t.Done = true }()
				for i := 0; i < p.CloseAt; i++ {
					vs.Yield()
				}
				t.End = ut.Close()
				// a second Close must report that the connection is closed, never hang
				t.HSErr = ut.Close()
			})
		}
	}
	if established {
		w.Go("ut-handshake", func() {
			defer func() { hsTask.Done = true }()
			hsTask.HSErr = ut.Handshake()
			hsTask.HSDone = true
			if hsTask.HSErr == nil {
				spawnUsers()
			}
		})
	} else {
		spawnUsers()
	}
	reason, unf := w.Run()
	w.Finish(r, sigp)
	r.Key = r.Trace
	r.Outcome = reason
	if reason != vs.Done {
		cls := "deadlock"
		if reason != vs.Deadlock {
			cls = "not-ended"
		}
		r.Violate(cls, sigp+" "+cls+" "+reason, "run ended with %q; unfinished tasks: %v", reason, unf)
		return r
	}
	// --- every Handshake caller sees the same result
	var hsRes []string
	for _, t := range tasks {
		if t.HSDone && t.Name[:3] == "ut-" {
			hsRes = append(hsRes, errStr(t.HSErr))
		}
	}
	for _, s := range hsRes {
		if p.Scenario != "close-race" && s != hsRes[0] {
			r.Violate("handshake-results", sigp+" handshake-results-differ", "Handshake callers saw different results: %v", hsRes)
			break
		}
	}
	if p.Scenario != "close-race" {
		for _, t := range tasks {
			if t.HSErr != nil {
				r.Violate("handshake-failed", sigp+" handshake-failed", "task %s: Handshake: %v", t.Name, t.HSErr)
			}
		}
	}
	for _, t := range tasks {
		if t.Name == "ut-badaddr" && t.End != nil {
			r.Violate("bad-addr", sigp+" writeto-foreign-address-accepted", "%v", t.End)
		}
	}
	// --- writes whole and exactly once
	ids, bad := c13ParseFramesN(sinkStream, p.FrameLen)
	if bad != "" && p.Scenario == "close-race" {
		// a Write cut short by Close may leave a proper prefix of its payload at the very end of the stream
		tail := sinkStream[len(ids)*p.FrameLen:]
		if len(tail) >= 5 && len(tail) < p.FrameLen {
			wi, k := int(tail[2]), int(binary.BigEndian.Uint16(tail[3:5]))
			full := c13FrameN(wi, k, p.FrameLen)
			failed := false
			if wi < len(writers) {
				for _, f := range writers[wi].Failed {
					failed = failed || f == k
				}
			}
			if failed && string(full[:len(tail)]) == string(tail) {
				bad = ""
				r.Stat("probe_write_cut_by_close", 1)
			}
		}
	}
	if bad != "" {
		r.Violate("torn-write", sigp+" torn-write", "peer's stream: %s (stream of %d bytes)", bad, len(sinkStream))
	}
	seen := map[[2]int]int{}
	last := map[int]int{}
	for _, id := range ids {
		seen[id]++
		if l, ok := last[id[0]]; ok && id[1] <= l {
			r.Violate("write-order", sigp+" write-order", "writer %d: frame %d arrived after frame %d", id[0], id[1], l)
		}
		last[id[0]] = id[1]
	}
	for id, n := range seen {
		if n > 1 {
			r.Violate("dup-write", sigp+" duplicate-write", "frame %v appears %d times in the peer's stream", id, n)
		}
	}
	sinkComplete := p.Scenario != "close-race" || peerSink.End == io.EOF
	for wi, t := range writers {
		for _, k := range t.OK {
			if seen[[2]int{wi, k}] == 0 && sinkComplete && p.Stack == TLCP {
				r.Violate("lost-write", sigp+" lost-write", "writer %d frame %d: Write succeeded but the frame is not in the peer's stream (peer read ended with %v)", wi, k, peerSink.End)
			}
		}
		if p.Scenario != "close-race" && len(t.OK) != p.Frames {
			r.Violate("write-failed", sigp+" write-failed", "writer %d: %d of %d writes succeeded, error %v", wi, len(t.OK), p.Frames, t.End)
		}
	}
	// --- readers: frames delivered exactly once
	if p.SmallRead && len(readers) > 0 {
		// the small-buffer reader gets every datagram it started in pieces: put them together again
		var all []byte
		for _, f := range readers[0].Got {
			all = append(all, f...)
		}
		readers[0].Got = nil
		for len(all) >= c13FrameLen {
			readers[0].Got = append(readers[0].Got, all[:c13FrameLen])
			all = all[c13FrameLen:]
		}
		if len(all) > 0 {
			r.Violate("reader-data", sigp+" small-read-tail", "the reader that uses Read with a 20-byte buffer ended with %d bytes that do not complete a datagram", len(all))
		}
	}
	gotIn := map[int]int{}
	for ri, t := range readers {
		for _, f := range t.Got {
			fr, bad := c13ParseFrames(f)
			if bad != "" || len(fr) != 1 || fr[0][0] != 200 {
				r.Violate("reader-data", sigp+" reader-data", "reader %d received %d bytes that are not one whole inbound frame (%s)", ri, len(f), bad)
				continue
			}
			gotIn[fr[0][1]]++
		}
	}
	for k, n := range gotIn {
		if n > 1 {
			r.Violate("dup-read", sigp+" duplicate-read", "inbound frame %d was delivered %d times", k, n)
		}
	}
	if p.Scenario != "close-race" {
		for k := 0; k < p.Inbound; k++ {
			if gotIn[k] != 1 {
				r.Violate("lost-read", sigp+" lost-read", "inbound frame %d delivered %d times (readers ended: %v)", k, gotIn[k], readerEnds(readers))
			}
		}
	}
	if p.Scenario == "close-race" {
		for _, t := range tasks {
			if t.Name == "ut-closer" && t.HSErr != net.ErrClosed {
				r.Violate("second-close", sigp+" second-close", "second Close returned %v, want net.ErrClosed", t.HSErr)
			}
		}
	}
	r.Stat("frames_written", len(ids))
	r.Stat("frames_read", len(gotIn))
	r.Trivial = false
	return r
}

func readerEnds(rs []*c13Task) []string {
	var out []string
	for _, t := range rs {
		out = append(out, fmt.Sprintf("%s:%d frames,%v", t.Name, len(t.Got), t.End))
	}
	sort.Strings(out)
	return out
}

// takeInbound hands out "permission to read one more inbound frame" so that
// readers stop after exactly Inbound frames without an in-band end marker.
//
//go:norace
func takeInbound(left *int) bool {
	if *left <= 0 {
		return false
	}
	*left--
	return true
}

// ---- pa adapter: first use from two tasks at once

func runC13PA(c *Case, src *vs.Src, p *c13Params, r *Result) *Result {
	w := NewWorld(c.Seed, src)
	w.K.MaxElapsed = 120 * time.Second
	env := NewEnv(w)
	cc := &EPConf{Suites: []uint16{p.Suite}, ServerName: "server.test"}
	sc := &EPConf{Suites: []uint16{p.Suite}, Certs: []string{"server_sig", "server_enc"}}
	pipe := simnet.NewPipe("client:1", "server:443")
	pipe.C.Seg, pipe.S.Seg = p.Seg, p.Seg
	ln := pa.NewListener(simnet.NewListener("server:443", pipe.S), sc.BuildTLCP(env, "s"), nil)
	sconn, err := ln.Accept()
	if err != nil {
		r.Infra = "pa accept: " + err.Error()
		return r
	}
	cli := tlcp.Client(pipe.C, cc.BuildTLCP(env, "c"))
	var cliErr, rErr, wErr error
	var got []byte
	var cgot []byte
	w.Go("client", func() {
		if cliErr = cli.Handshake(); cliErr != nil {
			cli.Close()
			return
		}
		if _, cliErr = cli.Write(c13Frame(1, 0)); cliErr != nil {
			return
		}
		b, err := readFull(cli, c13FrameLen)
		cgot, cliErr = b, err
		cli.Close()
	})
	w.Go("srv-reader", func() {
		b, err := readFull(sconn, c13FrameLen)
		got, rErr = b, err
	})
	w.Go("srv-writer", func() {
		_, wErr = sconn.Write(c13Frame(2, 0))
	})
	reason, unf := w.Run()
	sigp := "C13 pa first-use"
	w.Finish(r, sigp)
	r.Key = r.Trace
	r.Outcome = reason
	if reason != vs.Done {
		r.Violate("deadlock", sigp+" "+reason, "run ended with %q; unfinished %v", reason, unf)
		return r
	}
	if cliErr != nil || rErr != nil || wErr != nil {
		r.Violate("io", sigp+" io-error", "client %v, server read %v, server write %v", cliErr, rErr, wErr)
	}
	if string(got) != string(c13Frame(1, 0)) || string(cgot) != string(c13Frame(2, 0)) {
		r.Violate("data", sigp+" data", "frames did not arrive intact through the adapter")
	}
	return r
}

// ---- Close while Writes are blocked in a transport whose peer does not read

func runC13Blocked(c *Case, src *vs.Src, p *c13Params, r *Result) *Result {
	sigp := "C13 tlcp close-blocked"
	w := NewWorld(c.Seed, src)
	w.K.MaxElapsed = 60 * time.Second
	env := NewEnv(w)
	cc := &EPConf{Suites: []uint16{p.Suite}, ServerName: "server.test"}
	sc := &EPConf{Suites: []uint16{p.Suite}, Certs: []string{"server_sig", "server_enc"}}
	pair := NewPair(TLCP, env, cc, sc, "c", "s", "client:1", "server:443")
	st := &c13Shared{}
	var closeTook time.Duration
	var hsErr, closeErr, close2 error
	results := make([]error, p.Writers)
	w.Go("peer", func() {
		// handshakes, then never reads again
		if err := pair.S.Handshake(); err != nil {
			return
		}
		vs.Block(func() bool { return pair.Pipe.C.IsClosed() }, vs.Now().Add(50*time.Second))
		pair.S.Close()
	})
	w.Go("ut", func() {
		err := pair.C.Handshake()
		if err != nil {
			hsErr = err
			st.set(2)
			return
		}
		pair.Pipe.C.SetLimit(3000) // from now on the transport accepts 3000 bytes and then blocks
		st.set(1)
	})
	for i := 0; i < p.Writers; i++ {
		i := i
		w.Go(fmt.Sprintf("ut-writer%d", i), func() {
			vs.Block(func() bool { return st.get() != 0 }, time.Time{})
			if st.get() == 2 {
				return
			}
			for k := 0; k < 40; k++ {
				st.add(1)
				_, err := pair.C.Write(c13FrameN(i, k, 1000))
				st.add(-1)
				if err != nil {
					results[i] = err
					return
				}
			}
		})
	}
	w.Go("ut-closer", func() {
		vs.Block(func() bool { return st.get() != 0 }, time.Time{})
		if st.get() == 2 {
			return
		}
		// wait until the pipe is full and a writer is inside Write
		vs.Block(func() bool { return pair.Pipe.S.Pending() >= 3000 && st.inWrite() > 0 }, vs.Now().Add(5*time.Second))
		for i := 0; i < p.CloseAt; i++ {
			vs.Yield()
		}
		t0 := w.K.Elapsed()
		closeErr = pair.C.Close()
		closeTook = w.K.Elapsed() - t0
		close2 = pair.C.Close()
	})
	reason, unf := w.Run()
	w.Finish(r, sigp)
	r.Key = r.Trace
	r.Outcome = reason
	if closeTook > 6*time.Second {
		// Close may spend at most its own 5 s close-notify write deadline; here it came back only when the
		// PEER gave up after 50 s
		r.Violate("close-blocked", sigp+" close-does-not-unblock", "Close with Writes blocked in the transport took %v of virtual time (it returned only when the peer went away)", closeTook)
	}
	if hsErr != nil {
		r.Violate("setup", sigp+" handshake-failed", "%v", hsErr)
		return r
	}
	if reason != vs.Done {
		r.Violate("deadlock", sigp+" "+reason, "Close with Writes blocked in the transport: run ended with %q, unfinished tasks %v (Close returned %v)", reason, unf, closeErr)
		return r
	}
	for i, e := range results {
		if e == nil {
			r.Violate("write", sigp+" blocked-write-returned-nil", "writer %d completed 40 KB into a pipe of 3000 bytes", i)
		}
	}
	if close2 != net.ErrClosed {
		r.Violate("second-close", sigp+" second-close", "second Close returned %v", close2)
	}
	r.Stat("close_with_blocked_write", 1)
	return r
}

// c13Shared is harness state shared between tasks; accessed through //go:norace methods so that the
// race detector only ever reports on the library.
type c13Shared struct {
	state   int // 0 not ready, 1 ready, 2 handshake failed
	writing int
	done    int
}

//go:norace
func (s *c13Shared) finish() { s.done++ }

//go:norace
func (s *c13Shared) finished() int { return s.done }

//go:norace
func (s *c13Shared) set(v int) { s.state = v }

//go:norace
func (s *c13Shared) get() int { return s.state }

//go:norace
func (s *c13Shared) add(d int) { s.writing += d }

//go:norace
func (s *c13Shared) inWrite() int { return s.writing }

// runC13CloseHS: Close racing with a handshake in flight. The peer never answers; one task starts the handshake
// (Handshake, or a first Read or Write), another calls Close while the first is blocked waiting for the peer.
// Close must return promptly and the blocked call must come back with an error - "Close unblocks pending calls".
func runC13CloseHS(c *Case, src *vs.Src, p *c13Params, r *Result) *Result {
	sigp := "C13 tlcp close-hs " + p.Role + " " + p.HSBy
	w := NewWorld(c.Seed, src)
	w.K.MaxElapsed = 60 * time.Second
	env := NewEnv(w)
	cc := &EPConf{Suites: []uint16{p.Suite}, ServerName: "server.test"}
	sc := &EPConf{Suites: []uint16{p.Suite}, Certs: []string{"server_sig", "server_enc"}}
	pair := NewPair(TLCP, env, cc, sc, "c", "s", "client:1", "server:443")
	ut, raw := pair.C, pair.Pipe.S
	if p.Role == "server" {
		ut, raw = pair.S, pair.Pipe.C
	}
	st := &c13Shared{}
	var callErr, closeErr error
	var closeTook, callBack time.Duration
	w.Go("peer", func() {
		// holds the transport open, says nothing, goes away after 50 s
		vs.Block(func() bool { return st.get() == 3 }, vs.Now().Add(50*time.Second))
		raw.Close()
	})
	w.Go("ut-caller", func() {
		st.add(1)
		buf := make([]byte, 64)
		switch p.HSBy {
		case "read":
			_, callErr = ut.Read(buf)
		case "write":
			_, callErr = ut.Write([]byte("first write"))
		default:
			callErr = ut.Handshake()
		}
		st.add(-1)
		callBack = w.K.Elapsed()
		st.set(2)
	})
	w.Go("ut-closer", func() {
		// wait until the caller is inside its call and (for a client) the hello is on the wire
		vs.Block(func() bool { return st.inWrite() > 0 && (p.Role == "server" || raw.Pending() > 0) }, vs.Now().Add(5*time.Second))
		for i := 0; i < p.CloseAt; i++ {
			vs.Yield()
		}
		t0 := w.K.Elapsed()
		closeErr = ut.Close()
		closeTook = w.K.Elapsed() - t0
		vs.Block(func() bool { return st.get() == 2 }, vs.Now().Add(10*time.Second))
		st.set(3)
	})
	reason, unf := w.Run()
	w.Finish(r, sigp)
	r.Key = r.Trace
	r.Outcome = reason
	if closeTook > 6*time.Second {
		r.Violate("close-blocked", sigp+" close-does-not-unblock", "Close while %s was waiting for the peer's handshake messages took %v of virtual time (it came back only when the peer went away); Close returned %v, the call %v", p.HSBy, closeTook, closeErr, callErr)
	}
	if reason != vs.Done {
		r.Violate("deadlock", sigp+" "+reason, "Close during a handshake in flight: run ended with %q, unfinished tasks %v", reason, unf)
		return r
	}
	if callErr == nil {
		r.Violate("call", sigp+" pending-call-returned-nil", "%s returned nil although the peer never answered and the connection was closed", p.HSBy)
	}
	if callBack > 12*time.Second {
		r.Violate("close-blocked", sigp+" pending-call-not-unblocked", "the pending %s came back only after %v (error %v)", p.HSBy, callBack, callErr)
	}
	r.Stat("close_during_handshake", 1)
	return r
}

// runC13DeadlineBlocked: writers are blocked in a full transport when another task's write deadline expires; the
// deadline is then cleared and the peer starts to read. Whatever the writers are told afterwards must be true:
// every frame whose Write returned nil is in the peer's stream, whole and once.
func runC13DeadlineBlocked(c *Case, src *vs.Src, p *c13Params, r *Result) *Result {
	sigp := "C13 tlcp deadline-blocked"
	w := NewWorld(c.Seed, src)
	w.K.MaxElapsed = 60 * time.Second
	env := NewEnv(w)
	cc := &EPConf{Suites: []uint16{p.Suite}, ServerName: "server.test"}
	sc := &EPConf{Suites: []uint16{p.Suite}, Certs: []string{"server_sig", "server_enc"}}
	pair := NewPair(TLCP, env, cc, sc, "c", "s", "client:1", "server:443")
	st := &c13Shared{}
	const flen = 1000
	var hsErr, peerEnd error
	var stream []byte
	type wres struct{ ok, failed []int }
	results := make([]*wres, p.Writers)
	for i := range results {
		results[i] = &wres{}
	}
	w.Go("peer", func() {
		if err := pair.S.Handshake(); err != nil {
			return
		}
		vs.Block(func() bool { return st.get() >= 3 }, vs.Now().Add(50*time.Second))
		buf := make([]byte, 4096)
		for {
			pair.S.SetReadDeadline(vs.Now().Add(5 * time.Second))
			n, err := pair.S.Read(buf)
			stream = append(stream, buf[:n]...)
			if err != nil {
				peerEnd = err
				break
			}
		}
		pair.S.Close()
	})
	w.Go("ut", func() {
		if err := pair.C.Handshake(); err != nil {
			hsErr = err
			st.set(2)
			return
		}
		pair.Pipe.C.SetLimit(3000)
		st.set(1)
	})
	for i := 0; i < p.Writers; i++ {
		i := i
		w.Go(fmt.Sprintf("ut-writer%d", i), func() {
			defer st.finish()
			vs.Block(func() bool { return st.get() != 0 }, time.Time{})
			if st.get() == 2 {
				return
			}
			fails := 0
			for k := 0; k < 12 && fails < 4; k++ {
				st.add(1)
				_, err := pair.C.Write(c13FrameN(i, k, flen))
				st.add(-1)
				if err != nil {
					results[i].failed = append(results[i].failed, k)
					fails++
					// wait for the deadline to be cleared before trying again
					vs.Block(func() bool { return st.get() >= 3 }, vs.Now().Add(10*time.Second))
					continue
				}
				results[i].ok = append(results[i].ok, k)
			}
		})
	}
	w.Go("ut-deadliner", func() {
		vs.Block(func() bool { return st.get() != 0 }, time.Time{})
		if st.get() == 2 {
			return
		}
		vs.Block(func() bool { return pair.Pipe.S.Pending() >= 3000 && st.inWrite() > 0 }, vs.Now().Add(5*time.Second))
		for i := 0; i < p.CloseAt; i++ {
			vs.Yield()
		}
		t := pair.C.(tEP)
		t.Conn.SetWriteDeadline(vs.Now().Add(time.Second))
		vs.Sleep(1500 * time.Millisecond)
		t.Conn.SetWriteDeadline(time.Time{})
		pair.Pipe.C.SetLimit(0)
		st.set(3)
		vs.Block(func() bool { return st.finished() == p.Writers }, vs.Now().Add(30*time.Second))
		pair.C.Close()
	})
	reason, unf := w.Run()
	w.Finish(r, sigp)
	r.Key = r.Trace
	r.Outcome = reason
	if hsErr != nil {
		r.Violate("setup", sigp+" handshake-failed", "%v", hsErr)
		return r
	}
	if reason != vs.Done {
		r.Violate("deadlock", sigp+" "+reason, "run ended with %q, unfinished tasks %v", reason, unf)
		return r
	}
	// what arrived: whole frames only (each frame is one record); a damaged tail ends the stream with an error
	ids, bad := c13ParseFramesN(stream, flen)
	if bad != "" {
		r.Violate("torn-write", sigp+" torn-write", "peer's stream: %s (stream of %d bytes, ended with %v)", bad, len(stream), peerEnd)
	}
	seen := map[[2]int]int{}
	for _, id := range ids {
		seen[id]++
	}
	nOK, nFailed := 0, 0
	for wi, res := range results {
		nFailed += len(res.failed)
		for _, k := range res.ok {
			nOK++
			if seen[[2]int{wi, k}] != 1 {
				r.Violate("lost-write", sigp+" write-reported-ok-but-not-delivered", "writer %d frame %d: Write returned nil, but the frame appears %d times in the peer's stream (%d frames arrived, the peer's read ended with %v); writes that failed before: %v", wi, k, seen[[2]int{wi, k}], len(ids), peerEnd, res.failed)
				return r
			}
		}
	}
	if nFailed == 0 {
		r.Violate("setup", sigp+" no-timeout", "no Write ran into the write deadline")
	}
	r.Stat("writes_timed_out", nFailed)
	r.Stat("writes_ok", nOK)
	return r
}

// runC13CloseFull: Close when nobody is inside Write but the transport is full (the peer has stopped reading; the
// last Write gave up at its deadline) and another task is blocked in Read. Close may spend its close-notify write
// timeout (five seconds), then it must come back, and the pending Read with it - long before the peer goes away.
func runC13CloseFull(c *Case, src *vs.Src, p *c13Params, r *Result) *Result {
	sigp := "C13 tlcp close-full"
	w := NewWorld(c.Seed, src)
	w.K.MaxElapsed = 120 * time.Second
	env := NewEnv(w)
	cc := &EPConf{Suites: []uint16{p.Suite}, ServerName: "server.test"}
	sc := &EPConf{Suites: []uint16{p.Suite}, Certs: []string{"server_sig", "server_enc"}}
	pair := NewPair(TLCP, env, cc, sc, "c", "s", "client:1", "server:443")
	st := &c13Shared{}
	var hsErr, closeErr, readErr error
	var closeTook, readBack, closeEnd time.Duration
	readBack = -1
	writes := 0
	w.Go("peer", func() {
		if err := pair.S.Handshake(); err != nil {
			return
		}
		// reads nothing; goes away after 60 s
		vs.Block(func() bool { return false }, vs.Now().Add(60*time.Second))
		pair.S.Close()
	})
	w.Go("ut", func() {
		if err := pair.C.Handshake(); err != nil {
			hsErr = err
			st.set(2)
			return
		}
		pair.Pipe.C.SetLimit(3000)
		st.set(1)
	})
	w.Go("ut-reader", func() {
		vs.Block(func() bool { return st.get() != 0 }, time.Time{})
		if st.get() == 2 {
			return
		}
		_, readErr = pair.C.Read(make([]byte, 64))
		readBack = w.K.Elapsed()
	})
	w.Go("ut-writer", func() {
		vs.Block(func() bool { return st.get() != 0 }, time.Time{})
		if st.get() == 2 {
			return
		}
		t := pair.C.(tEP)
		t.Conn.SetWriteDeadline(vs.Now().Add(time.Second))
		for k := 0; k < 12; k++ {
			if _, err := pair.C.Write(c13FrameN(0, k, 1000)); err != nil {
				break
			}
			writes++
		}
		st.set(5)
	})
	w.Go("ut-closer", func() {
		vs.Block(func() bool { return st.get() == 5 || st.get() == 2 }, time.Time{})
		if st.get() == 2 {
			return
		}
		for i := 0; i < p.CloseAt; i++ {
			vs.Yield()
		}
		t0 := w.K.Elapsed()
		closeErr = pair.C.Close()
		closeEnd = w.K.Elapsed()
		closeTook = closeEnd - t0
	})
	reason, unf := w.Run()
	w.Finish(r, sigp)
	r.Key = r.Trace
	r.Outcome = reason
	if hsErr != nil {
		r.Violate("setup", sigp+" handshake-failed", "%v", hsErr)
		return r
	}
	if reason != vs.Done {
		r.Violate("deadlock", sigp+" "+reason, "Close on a connection whose transport is full: run ended with %q, unfinished tasks %v (Close returned %v)", reason, unf, closeErr)
		return r
	}
	if closeTook > 6*time.Second {
		r.Violate("close-blocked", sigp+" close-does-not-unblock", "Close with a full transport and no Write in flight took %v of virtual time (%d frames had been written; it returned only when the peer went away); Close returned %v", closeTook, writes, closeErr)
	}
	if readBack < 0 || readBack > closeEnd+time.Second {
		r.Violate("close-blocked", sigp+" pending-call-not-unblocked", "the Read pending when Close was called came back at %v, Close returned at %v (Read error %v)", readBack, closeEnd, readErr)
	}
	r.Stat("scenario_close_full", 1)
	return r
}
