package props

import (
	"crypto/tls"
	stdx509 "crypto/x509"
	"encoding/json"
	"fmt"
	"net"
	"strings"
	"time"

	"gitee.com/Trisia/gotlcp/pa"
	"gitee.com/Trisia/gotlcp/tlcp"
	"gitee.com/Trisia/gotlcp/vs"

	"verifsim/fix"
	"verifsim/simnet"
)

// C20 — the protocol adapter routes by record version and loses no bytes.
type c20 struct{}

func init() { Register(c20{}) }

type c20Params struct {
	Client  string `json:"client"` // tlcp | tls | raw
	Config  string `json:"config"` // both | tlcp-only | tls-only
	Major   int    `json:"major,omitempty"`   // raw: major version byte of the first record
	Minor   int    `json:"minor,omitempty"`
	SendLen int    `json:"send_len,omitempty"` // raw: bytes of the 5-byte header (and beyond) sent before disconnecting
	Seg     int    `json:"seg"`                // transport segmentation towards the adapter
	FirstOp string `json:"first_op"`           // read | write
	Buf     int    `json:"buf"`                // size of the application's read buffer
	Payload int    `json:"payload"`
	// RType (raw): content type of the first record (0 = 22 handshake; also 21 alert, 23 application data, 20)
	RType int `json:"rtype,omitempty"`
	// Concurrent: the application's first Write and first Read are issued by two tasks at the same time
	Concurrent bool `json:"concurrent,omitempty"`
	// Stall (raw): the client stays connected, silent, for five seconds after its bytes; the server application has
	// set a read deadline 400 ms ahead before its first Read, which must come back by then - as it does from the
	// stack directly
	Stall bool `json:"stall,omitempty"`
	// ViaCallback: the configurations given to the listener carry no certificates of their own; they name a
	// GetConfigForClient callback that returns the complete configuration
	ViaCallback bool `json:"via_callback,omitempty"`
}

// c20RawBytes is what a raw client sends: one record of the given type and version (cut to SendLen bytes).
func c20RawBytes(p *c20Params) []byte {
	switch p.RType {
	case 21:
		return []byte{21, byte(p.Major), byte(p.Minor), 0, 2, 2, 40, 0, 0, 0, 0, 0} // fatal handshake_failure
	case 23:
		return []byte{23, byte(p.Major), byte(p.Minor), 0, 4, 1, 2, 3, 4, 0, 0, 0}
	case 20:
		return []byte{20, byte(p.Major), byte(p.Minor), 0, 1, 1, 0, 0, 0, 0, 0, 0}
	}
	return []byte{22, byte(p.Major), byte(p.Minor), 0, 7, 1, 0, 0, 3, 1, 1, 0}
}

func c20RawWait(p *c20Params) time.Duration {
	if p.Stall {
		return 5 * time.Second
	}
	return 2 * time.Second
}

func (c20) ID() string    { return "C20" }
func (c20) Level() string { return "exploration" }
func (c20) Rule() string {
	return "each case: a connection accepted by pa.NewListener over a simulated listener, with TLCP-only / TLS-only / dual configuration, and one of three clients: the real tlcp client, the real crypto/tls client (TLS 1.2/1.3), or a raw writer that sends a record (handshake, alert, application data or ChangeCipherSpec) with any major version byte 0..255 and stops after 0..12 bytes; with the real clients the application's first Write and first Read may come from two tasks at once; transport segmentation whole / random / one byte per read (so the 5 peeked bytes arrive in every split); the server application's first operation is Read or Write, with read buffers from 1 byte (below the peeked header) upwards. Oracle: ProtectedConn() is *tlcp.Conn iff the major byte is 0x01 and *tls.Conn iff 0x03 (configuration error when that side is not configured), every other byte gives the unsupported-protocol error; handshake and echo through the adapter give the same negotiated state and bytes as against the stack directly; a client that disconnects early gives an error, never a hang or panic - also for the other operation tried after the first one failed; a raw client that sent a whole header and then went away gives the error the stack gives when it is fed the same bytes directly. Raw clients may also stay connected and silent for five seconds while the application has set a read deadline 400 ms ahead (its first Read must be back by then, with the error the stack gives directly); the configurations given to the listener may carry no certificates and name only GetConfigForClient. distinct = distinct parameter vectors; non-trivial = the adapter reached its decision"
}
func (c20) Components() (real, stub []string) {
	return []string{"pa.listener, ProtocolSwitchServerConn, ProtocolDetectConn (instrumented)", "tlcp client+server (instrumented)", "crypto/tls client+server (real standard library code, one task per connection)"},
		[]string{"listener and transport (simnet), randomness, clock, scheduler"}
}
func (c20) Assumptions() []string {
	return []string{"crypto/tls is driven by one task per connection (its internal mutexes are never contended, so the kernel never has to schedule inside it)"}
}
func (c20) Count(tier string) int {
	if tier == "thorough" {
		return 40000
	}
	return 2500
}
func (c20) Make(tier string, seed uint64, i int) *Case {
	return &Case{Prop: "C20", Index: i, Seed: CaseSeed(seed, "C20", i)}
}

func drawC20(src *vs.Src) *c20Params {
	p := &c20Params{Seg: src.Intn(3), FirstOp: pickStr(src, []string{"read", "read", "write"})}
	p.Client = pickStr(src, []string{"tlcp", "tls", "raw", "raw"})
	p.Config = pickStr(src, []string{"both", "both", "tlcp-only", "tls-only"})
	p.Buf = pickInt(src, []int{1, 2, 3, 4, 5, 6, 16, 100, 4096})
	p.Payload = 1 + src.Intn(3000)
	if p.Client == "raw" {
		p.Major = src.Intn(256)
		if src.Bool(1, 3) {
			p.Major = pickInt(src, []int{0, 1, 2, 3, 4, 0x16, 0xfe})
		}
		p.Minor = src.Intn(256)
		p.SendLen = src.Intn(13)
		if src.Bool(1, 3) {
			p.RType = pickInt(src, []int{21, 23, 20})
		}
		if src.Bool(1, 3) {
			p.Stall, p.FirstOp = true, "read"
		}
	} else if p.Client == "tlcp" && p.Config == "tlcp-only" {
		// only where no crypto/tls connection can come into being, however the adapter routes: crypto/tls is real,
		// uninstrumented code whose internal mutexes the kernel cannot schedule around (two tasks inside one
		// tls.Conn would stop the simulation, not the library)
		p.Concurrent = true
	}
	p.ViaCallback = src.Bool(1, 3)
	return p
}

// The default key exchange of crypto/tls (X25519MLKEM768) draws from the process-wide random source, not from
// Config.Rand: its bytes enter the transcript, the ECDSA signature over the transcript then has a DER encoding
// of varying length, and the number of transport operations (= kernel steps) varied between runs of one
// seed (found by ./check selftest with 30 processes). X25519 alone takes all its randomness from Config.Rand.
var c20Curves = []tls.CurveID{tls.X25519}

func c20TLSConfigs(w *World) (*tls.Config, *tls.Config) {
	cert := tls.Certificate{Certificate: [][]byte{fix.DER("tls")}, PrivateKey: fix.Key("tls")}
	srv := &tls.Config{Certificates: []tls.Certificate{cert}, Rand: w.Rand("tls-s"), Time: FixedTime, MinVersion: tls.VersionTLS12, CurvePreferences: c20Curves}
	pool := stdx509.NewCertPool()
	c, _ := stdx509.ParseCertificate(fix.DER("tls"))
	pool.AddCert(c)
	cli := &tls.Config{RootCAs: pool, ServerName: "server.test", Rand: w.Rand("tls-c"), Time: FixedTime, MinVersion: tls.VersionTLS12, CurvePreferences: c20Curves}
	return cli, srv
}

func (c20) Run(c *Case, src *vs.Src) *Result {
	r := &Result{}
	var p *c20Params
	if c.P != nil {
		p = &c20Params{}
		if err := json.Unmarshal(c.P, p); err != nil {
			r.Infra = "bad params: " + err.Error()
			return r
		}
	} else {
		p = drawC20(src)
	}
	r.Sample = p
	pj, _ := json.Marshal(p)
	r.Key = hashKey(string(pj))
	sigp := fmt.Sprintf("C20 %s %s", p.Client, p.Config)
	w := NewWorld(c.Seed, src)
	w.K.MaxElapsed = 60 * time.Second
	env := NewEnv(w)
	tlsCli, tlsSrv := c20TLSConfigs(w)
	tlcpSrv := (&EPConf{Certs: []string{"server_sig", "server_enc"}}).BuildTLCP(env, "s")
	tlcpCli := (&EPConf{ServerName: "server.test"}).BuildTLCP(env, "c")
	var cfgT *tlcp.Config
	var cfgS *tls.Config
	if p.Config != "tls-only" {
		cfgT = tlcpSrv
	}
	if p.Config != "tlcp-only" {
		cfgS = tlsSrv
	}
	if p.ViaCallback {
		if cfgT != nil {
			cfgT = (&EPConf{Certs: []string{"server_sig", "server_enc"}, Clone: 2}).BuildTLCP(env, "s-outer")
		}
		if cfgS != nil {
			full := tlsSrv
			cfgS = &tls.Config{Rand: full.Rand, Time: full.Time, MinVersion: full.MinVersion, GetConfigForClient: func(*tls.ClientHelloInfo) (*tls.Config, error) { return full, nil }}
		}
	}
	pipe := simnet.NewPipe("client:1", "server:443")
	pipe.S.Seg = p.Seg
	pipe.C.Seg = p.Seg
	ln := pa.NewListener(simnet.NewListener("server:443", pipe.S), cfgT, cfgS)
	if ln == nil {
		r.Infra = "pa.NewListener returned nil"
		return r
	}
	sconn, err := ln.Accept()
	if err != nil {
		r.Infra = "accept: " + err.Error()
		return r
	}
	msg := payload(src, p.Payload, 7)
	reply := payload(src, 1+p.Payload/2, 9)
	var srvErr error
	var srvGot []byte
	var firstErr, secondErr error
	firstBack := time.Duration(-1) // when the application's first Read came back
	secondDone := true
	// after a failed first operation the application tries the other one as well: it must fail too, not hang
	second := func(first string) {
		secondDone = false
		if first == "write" {
			_, secondErr = sconn.Read(make([]byte, 16))
		} else {
			_, secondErr = sconn.Write([]byte("x"))
		}
		secondDone = true
	}
	writerDone := !p.Concurrent
	var writerErr error
	if p.Concurrent {
		w.Go("server-writer", func() {
			if _, err := sconn.Write(reply); err != nil {
				srvErr, writerErr = err, err
			}
			writerDone = true
		})
	}
	w.Go("server-app", func() {
		defer sconn.Close()
		defer vs.Block(func() bool { return writerDone }, vs.Now().Add(30*time.Second))
		if p.FirstOp == "write" && !p.Concurrent {
			// a server that speaks first (its first Write triggers detection and handshake)
			if _, err := sconn.Write(reply); err != nil {
				firstErr, srvErr = err, err
				second("write")
				return
			}
		}
		buf := make([]byte, p.Buf)
		if p.Stall {
			sconn.SetReadDeadline(vs.Now().Add(400 * time.Millisecond))
		}
		for len(srvGot) < len(msg) {
			n, err := sconn.Read(buf)
			if firstBack < 0 {
				firstBack = w.K.Elapsed()
			}
			srvGot = append(srvGot, buf[:n]...)
			if len(srvGot) >= len(msg) {
				break // the last bytes may arrive together with the end-of-stream indication
			}
			if err != nil {
				srvErr = err
				if firstErr == nil && len(srvGot) == 0 {
					firstErr = err
					second("read")
				}
				return
			}
		}
		if p.FirstOp != "write" && !p.Concurrent {
			if _, err := sconn.Write(reply); err != nil {
				srvErr = err
			}
		}
	})
	var cliErr error
	var cliGot []byte
	var cliState string
	w.Go("client", func() {
		var conn net.Conn
		switch p.Client {
		case "tlcp":
			tc := tlcp.Client(pipe.C, tlcpCli)
			conn = tc
			if cliErr = tc.Handshake(); cliErr != nil {
				tc.Close()
				return
			}
			st := tc.ConnectionState()
			cliState = fmt.Sprintf("tlcp vers=%04x suite=%04x", st.Version, st.CipherSuite)
		case "tls":
			tc := tls.Client(pipe.C, tlsCli)
			conn = tc
			if cliErr = tc.Handshake(); cliErr != nil {
				tc.Close()
				return
			}
			st := tc.ConnectionState()
			cliState = fmt.Sprintf("tls vers=%04x", st.Version)
		case "raw":
			hdr := c20RawBytes(p)
			if p.SendLen > 0 {
				pipe.C.Write(hdr[:p.SendLen])
			}
			// a raw client may wait for a reply for a while, then disconnects
			pipe.C.SetReadDeadline(vs.Now().Add(c20RawWait(p)))
			b := make([]byte, 64)
			pipe.C.Read(b)
			pipe.C.Close()
			return
		}
		if _, cliErr = conn.Write(msg); cliErr != nil {
			conn.Close()
			return
		}
		cliGot, cliErr = readFull(conn, len(reply))
		conn.Close()
	})
	// reference: the same bytes given to the stack directly (raw client, whole header of a configured protocol)
	var refErr error
	refRan := false
	if p.Client == "raw" && p.SendLen >= 5 && ((p.Major == 1 && cfgT != nil) || (p.Major == 3 && cfgS != nil)) {
		refRan = true
		rp := simnet.NewPipe("client:2", "server:444")
		rp.S.Seg, rp.C.Seg = p.Seg, p.Seg
		w.Go("ref-client", func() {
			hdr := c20RawBytes(p)
			rp.C.Write(hdr[:p.SendLen])
			rp.C.SetReadDeadline(vs.Now().Add(c20RawWait(p)))
			rp.C.Read(make([]byte, 64))
			rp.C.Close()
		})
		w.Go("ref-server", func() {
			var direct net.Conn
			if p.Major == 1 {
				direct = tlcp.Server(rp.S, (&EPConf{Certs: []string{"server_sig", "server_enc"}}).BuildTLCP(env, "ref-s"))
			} else {
				_, refSrv := c20TLSConfigs(w)
				refSrv.Rand = w.Rand("ref-tls-s")
				direct = tls.Server(rp.S, refSrv)
			}
			if p.Stall {
				direct.SetReadDeadline(vs.Now().Add(400 * time.Millisecond))
			}
			if p.FirstOp == "write" {
				_, refErr = direct.Write(reply)
			} else {
				_, refErr = direct.Read(make([]byte, p.Buf))
			}
			direct.Close()
		})
	}
	reason, unf := w.Run()
	w.Finish(r, sigp)
	if reason != vs.Done {
		r.Violate("hang", sigp+" not-ended "+reason, "run ended with %q, unfinished %v; first error %v, second operation finished: %v", reason, unf, firstErr, secondDone)
		return r
	}
	if p.Stall && (firstErr == nil || firstBack > 450*time.Millisecond) {
		r.Violate("deadline", "C20 raw read-deadline-not-honoured", "the application set a read deadline 400 ms ahead before its first Read; the client sent %d bytes (major %d) and fell silent; the Read came back at %v with %v", p.SendLen, p.Major, firstBack, firstErr)
	}
	if firstErr != nil && secondErr == nil {
		r.Violate("second-op", sigp+" second-operation-succeeded", "the first operation failed with %v, the other one then returned nil", firstErr)
	}
	if refRan && p.Stall && firstErr != nil && isTimeout(firstErr) && refErr != nil && !isTimeout(refErr) {
		// the stack, given the same bytes directly, answers the header at once; through the adapter the answer waits
		// for bytes that never come: the adapter's Read holds the peeked header back until the live stream delivers
		// at least one byte more
		r.Violate("through", "C20 raw stalled-after-header: header held back until more bytes arrive", "a client that sent %d bytes (type %d, major %d) and fell silent: the stack directly answers the first %s with %q; through the adapter the same call waits for more bytes and ends with %q at the application's deadline (pa.ProtocolDetectConn.Read, having copied the peeked header into a buffer with room to spare, blocks in Conn.Read for the rest)", p.SendLen, c20RawBytes(p)[0], p.Major, p.FirstOp, errStr(refErr), errStr(firstErr))
	} else if refRan && errStr(firstErr) != errStr(refErr) {
		r.Violate("through", "C20 raw error-differs-from-direct-stack", "a client that sent %d bytes (major %d) and went away: through the adapter the first %s returned %q, the same bytes given to the stack directly give %q", p.SendLen, p.Major, p.FirstOp, errStr(firstErr), errStr(refErr))
	}
	// which stack serves the connection: normally asked of the adapter; a listener that hands out a stack's
	// connection directly has made its choice without looking at the first record
	var prot interface{} = sconn
	if sw, ok := sconn.(*pa.ProtocolSwitchServerConn); ok {
		prot = sw.ProtectedConn()
	}
	kind := "none"
	switch prot.(type) {
	case *tlcp.Conn:
		kind = "tlcp"
	case *tls.Conn:
		kind = "tls"
	}
	r.Outcome = fmt.Sprintf("routed=%s err=%v", kind, firstErr != nil)
	// ---- routing expectation
	major := -1
	switch p.Client {
	case "tlcp":
		major = 1
	case "tls":
		major = 3
	case "raw":
		if p.SendLen >= 5 {
			major = p.Major
		}
	}
	want := "none"
	wantErr := ""
	switch {
	case major == -1:
		wantErr = "short-header"
	case major == 1 && cfgT != nil:
		want = "tlcp"
	case major == 1:
		wantErr = "config"
	case major == 3 && cfgS != nil:
		want = "tls"
	case major == 3:
		wantErr = "config"
	default:
		wantErr = "unsupported"
	}
	if kind != want {
		r.Violate("routing", fmt.Sprintf("C20 routed=%s want=%s", kind, want), "first record major byte %d (client %s, config %s, %d bytes sent): served by %q, expected %q; first error %v", major, p.Client, p.Config, p.SendLen, kind, want, firstErr)
	}
	switch wantErr {
	case "unsupported":
		if firstErr == nil || !strings.Contains(firstErr.Error(), "unknown protocol version") {
			r.Violate("routing", "C20 unsupported-error", "major byte %d: first operation returned %v, expected the unsupported-protocol error", major, firstErr)
		}
	case "config":
		if p.Concurrent && writerErr != nil && strings.Contains(writerErr.Error(), "config not set") && firstErr != nil {
			// the concurrent Write met the detection first and got the configuration error; the Read failed as well
		} else if firstErr == nil || !strings.Contains(firstErr.Error(), "config not set") {
			r.Violate("routing", "C20 config-error", "major byte %d with configuration %s: first operation returned %v, expected the configuration error", major, p.Config, firstErr)
		}
	case "short-header":
		if firstErr == nil {
			r.Violate("early-disconnect", "C20 early-disconnect-no-error", "client disconnected after %d bytes but the server's first operation did not fail", p.SendLen)
		}
	}
	// ---- through-the-adapter behaviour equals the direct behaviour
	if p.Client != "raw" && want != "none" {
		if cliErr != nil || srvErr != nil {
			r.Violate("through", sigp+" exchange-failed", "handshake/echo through the adapter failed: client %v, server %v", cliErr, srvErr)
		} else {
			if string(srvGot) != string(msg) || string(cliGot) != string(reply) {
				r.Violate("through", sigp+" bytes-lost", "bytes through the adapter differ: server got %d/%d, client got %d/%d (read buffer %d)", len(srvGot), len(msg), len(cliGot), len(reply), p.Buf)
			}
			wantState := "tlcp vers=0101 suite=e053"
			if p.Client == "tls" {
				wantState = "tls vers=0304"
			}
			if cliState != wantState {
				r.Violate("through", sigp+" state-differs", "negotiated %q through the adapter, %q directly", cliState, wantState)
			}
		}
		r.Stat("echo_through_adapter", 1)
	}
	r.Stat("routed_"+kind, 1)
	return r
}
