package props

import (
	"bytes"
	"encoding/binary"
	"encoding/hex"
	"encoding/json"
	"fmt"
	"strings"
	"time"

	"gitee.com/Trisia/gotlcp/dtlcp"
	"gitee.com/Trisia/gotlcp/tlcp"
	"gitee.com/Trisia/gotlcp/vs"

	"verifsim/peer"
	"verifsim/ref"
	"verifsim/simnet"
)

// C04 — key schedule and record protection match an independent derivation.
type c04 struct{}

func init() { Register(c04{}) }

type c04Params struct {
	Stack      string `json:"stack"`
	Suite      uint16 `json:"suite"`
	ClientAuth bool   `json:"client_auth"`
	WrapSide   int    `json:"wrap_side"` // ECDHE: 0 server keys wrapped (client's agreement code is compared), 1 client keys wrapped
	Seg        int    `json:"seg"`
	C2S        []int  `json:"c2s"`
	S2C        []int  `json:"s2c"`
	C2S2       []int  `json:"c2s_resumed"`
	S2C2       []int  `json:"s2c_resumed"`
	VecParams  bool   `json:"vec_params"`
	PMTU       int    `json:"pmtu,omitempty"` // datagram stack: path MTU of both ends (0 = default; small values fragment the flights)
	// Foreign: one end (ForeignRole: which role the library plays) talks to the independent reference endpoint
	// instead of another copy of the library: that endpoint picks its own explicit GCM nonces (random, not the
	// sequence number) and pads its CBC records with extra blocks; handshake and data in both directions must work
	Foreign     bool   `json:"foreign,omitempty"`
	ForeignRole string `json:"foreign_role,omitempty"`
}

func (c04) ID() string    { return "C04" }
func (c04) Level() string { return "exploration" }
func (c04) Rule() string {
	return "each case: stack x suite x client-auth x which side's SM2 key agreement is the harness's (the other side's built-in code is what is compared) x random application writes in both directions, on a full handshake followed by a resumed one. A passive wire monitor (package ref, no code shared with gotlcp) re-derives pre-master, master secret, key block and both Finished values from the captured bytes and opens every protected record of each direction with that direction's own key. A quarter of the stream-stack cases run the library (either role) against the independent reference endpoint instead of a second copy of itself: that endpoint picks random explicit GCM nonces and pads its CBC records with three extra blocks; handshake, both Finished values and data in both directions must work; as ECDHE client it picks, in every second case, an ephemeral key that makes the pre-master secret begin with a zero byte. In one case of six one direction carries 257-656 small writes, so that the record sequence number passes 255 (and 511) on one connection and its carry is compared too. distinct = distinct (stack, suite, auth, wrap side, write-size vectors); non-trivial = both handshakes completed and at least one protected application record per direction was opened"
}
func (c04) Components() (real, stub []string) {
	return []string{"tlcp/dtlcp client+server (instrumented): key agreement, PRF, key schedule, record protection", "lruSessionCache"},
		[]string{"transport, clock, randomness, scheduler", "one side's SM2KeyAgreement implementation on ECDHE runs (harness-owned, alternating sides)"}
}
func (c04) Assumptions() []string {
	return []string{"package ref is a correct independent reading of GB/T 38636-2020 6.5 / GM/T 0128 (P_SM3, master secret, key block order, Finished, GCM and CBC+HMAC record protection with 5- and 13-byte headers)", "gmsm primitives (SM2/SM3/SM4) are correct (shared by both implementations)"}
}
func (c04) Count(tier string) int {
	if tier == "thorough" {
		return 40000
	}
	return 1200
}
func (c04) Make(tier string, seed uint64, i int) *Case {
	return &Case{Prop: "C04", Index: i, Seed: CaseSeed(seed, "C04", i)}
}

func drawSizes(src *vs.Src, maxN, maxSize int) []int {
	n := 1 + src.Intn(maxN)
	out := make([]int, n)
	for i := range out {
		switch src.Intn(6) {
		case 0:
			out[i] = 1 + src.Intn(16)
		case 1:
			out[i] = maxSize - src.Intn(40)
		default:
			out[i] = 1 + src.Intn(maxSize)
		}
	}
	return out
}

func drawC04(src *vs.Src) *c04Params {
	p := &c04Params{}
	p.Stack = pickStr(src, []string{TLCP, DTLCP})
	p.Suite = AllSuites[src.Intn(4)]
	p.ClientAuth = src.Bool(1, 2)
	p.WrapSide = src.Intn(2)
	p.Seg = src.Intn(3)
	p.VecParams = src.Bool(1, 4)
	max := 40000
	if p.Stack == DTLCP {
		max = 5000
	}
	p.C2S, p.S2C = drawSizes(src, 4, max), drawSizes(src, 4, max)
	p.C2S2, p.S2C2 = drawSizes(src, 3, max/4), drawSizes(src, 3, max/4)
	if p.Stack == DTLCP {
		p.PMTU = pickInt(src, []int{0, 0, 576, 300, 200})
	}
	if p.Stack == TLCP && src.Bool(1, 4) {
		p.Foreign, p.ForeignRole = true, pickStr(src, []string{"client", "server"})
		p.C2S, p.S2C = drawSizes(src, 4, 4000), drawSizes(src, 4, 4000) // C2S: what the library writes, S2C: what it is sent
	}
	if src.Bool(1, 6) {
		// many records: one direction carries several hundred small writes, so that the record sequence number
		// (and with it the GCM nonce and the MAC input) passes 255 and 511, where its low byte carries over
		many := make([]int, 257+src.Intn(400))
		for i := range many {
			many[i] = 1 + src.Intn(8)
		}
		if src.Bool(1, 2) {
			p.C2S = many
		} else {
			p.S2C = many
		}
	}
	return p
}

// session is a handshake followed by a list of writes in each direction.
type sessOut struct {
	HSOut
	CWriteErr, SWriteErr string
}

func spawnSession(w *World, p *Pair, c2s, s2c [][]byte, out *sessOut, tag string) {
	total := func(xs [][]byte) int {
		n := 0
		for _, x := range xs {
			n += len(x)
		}
		return n
	}
	w.Go("client"+tag, func() {
		err := p.C.Handshake()
		out.CErr, out.CEnded = err, true
		if err != nil {
			p.C.Close()
			return
		}
		for _, b := range c2s {
			if n, err := p.C.Write(b); err != nil || n != len(b) {
				out.CWriteErr = fmt.Sprintf("client write of %d returned n=%d err=%v", len(b), n, err)
				p.C.Close()
				return
			}
		}
		got, err := readFull(p.C, total(s2c))
		out.GotS2C = got
		if err != nil {
			out.CEchoErr = "client read: " + err.Error()
		}
		p.C.Close()
	})
	w.Go("server"+tag, func() {
		err := p.S.Handshake()
		out.SErr, out.SEnded = err, true
		if err != nil {
			p.S.Close()
			return
		}
		got, err := readFull(p.S, total(c2s))
		out.GotC2S = got
		if err != nil {
			out.SEchoErr = "server read: " + err.Error()
			p.S.Close()
			return
		}
		for _, b := range s2c {
			if n, err := p.S.Write(b); err != nil || n != len(b) {
				out.SWriteErr = fmt.Sprintf("server write of %d returned n=%d err=%v", len(b), n, err)
				break
			}
		}
		if p.Stack == TLCP {
			b := make([]byte, 8)
			n, err := p.S.Read(b)
			out.CEOF = fmt.Sprintf("n=%d err=%v", n, err)
		}
		p.S.Close()
	})
}

func mkPayloads(src *vs.Src, sizes []int, tag byte) [][]byte {
	out := make([][]byte, len(sizes))
	for i, n := range sizes {
		out[i] = payload(src, n, tag+byte(i))
	}
	return out
}

func cat(xs [][]byte) []byte {
	var out []byte
	for _, x := range xs {
		out = append(out, x...)
	}
	return out
}

func (c04) Run(c *Case, src *vs.Src) *Result {
	r := &Result{}
	var p *c04Params
	if c.P != nil {
		p = &c04Params{}
		if err := json.Unmarshal(c.P, p); err != nil {
			r.Infra = "bad params: " + err.Error()
			return r
		}
	} else {
		p = drawC04(src)
	}
	r.Sample = p
	if p.Foreign {
		return c04Foreign(c, src, p, r)
	}
	cc := &EPConf{Suites: []uint16{p.Suite}, ServerName: "server.test", Cache: "c", VecParams: p.VecParams, PMTU: p.PMTU}
	sc := &EPConf{Suites: []uint16{p.Suite}, Certs: []string{"server_sig", "server_enc"}, Cache: "s", PMTU: p.PMTU}
	if p.ClientAuth || IsECDHE(p.Suite) {
		cc.Certs = []string{"client_sig", "client_enc"}
	}
	if p.ClientAuth {
		sc.Auth = 4
	}
	if IsECDHE(p.Suite) {
		if p.WrapSide == 0 {
			sc.WrapKeys = true
		} else {
			cc.WrapKeys = true
		}
	}
	sigp := fmt.Sprintf("C04 %s %s", p.Stack, SuiteName(p.Suite))
	sec := &ref.Secrets{KeyFor: keyResolver("server_sig", "server_enc", "client_sig", "client_enc"), Sessions: map[string][]byte{}}
	var env *Env
	ok := true
	outcome := ""
	for conn := 0; conn < 2 && ok; conn++ {
		w := NewWorld(c.Seed+uint64(conn), src)
		w.K.MaxElapsed = 300 * time.Second
		if env == nil {
			env = NewEnv(w)
			env.TCaches["c"], env.DCaches["c"] = tlcp.NewLRUSessionCache(4), dtlcp.NewLRUSessionCache(4)
			env.TCaches["s"], env.DCaches["s"] = tlcp.NewLRUSessionCache(4), dtlcp.NewLRUSessionCache(4)
		}
		env.W = w
		pair := NewPair(p.Stack, env, cc, sc, fmt.Sprintf("c%d", conn), fmt.Sprintf("s%d", conn), "client:1", "server:443")
		if pair.Pipe != nil {
			pair.Pipe.C.Seg, pair.Pipe.S.Seg = p.Seg, p.Seg
		}
		sizesC, sizesS := p.C2S, p.S2C
		if conn == 1 {
			sizesC, sizesS = p.C2S2, p.S2C2
		}
		c2s, s2c := mkPayloads(src, sizesC, 10), mkPayloads(src, sizesS, 50)
		out := &sessOut{}
		spawnSession(w, pair, c2s, s2c, out, fmt.Sprint(conn))
		reason, unf := w.Run()
		w.Finish(r, sigp)
		tag := fmt.Sprintf("conn%d", conn)
		if reason != vs.Done {
			r.Violate("not-ended", sigp+" not-ended", "%s: run ended with %q, unfinished %v, client err=%v server err=%v", tag, reason, unf, out.CErr, out.SErr)
			ok = false
			break
		}
		if out.CErr != nil || out.SErr != nil {
			r.Violate("handshake-failed", sigp+" handshake-failed", "%s: honest handshake failed: client %v, server %v", tag, out.CErr, out.SErr)
			ok = false
			break
		}
		out.Collect(pair)
		if conn == 1 && (!out.CCS.Resumed || !out.SCS.Resumed) {
			r.Violate("not-resumed", sigp+" not-resumed", "%s: second connection did not resume (client %v server %v)", tag, out.CCS.Resumed, out.SCS.Resumed)
		}
		if out.CWriteErr+out.SWriteErr+out.CEchoErr+out.SEchoErr != "" {
			r.Violate("io", sigp+" io-error", "%s: %s %s %s %s", tag, out.CWriteErr, out.SWriteErr, out.CEchoErr, out.SEchoErr)
		}
		if !bytes.Equal(out.GotC2S, cat(c2s)) || !bytes.Equal(out.GotS2C, cat(s2c)) {
			r.Violate("data", sigp+" data-mismatch", "%s: delivered bytes differ from written bytes", tag)
		}
		// ---- the monitor
		sec.Eph = env.KeyOps.Eph
		v := pair.Observe(sec)
		for _, e := range v.Errors {
			r.Violate("monitor", sigp+" monitor: "+clipSig(e), "%s: %s", tag, e)
		}
		if len(v.Errors) > 0 {
			ok = false
			break
		}
		for _, e := range v.NonceReuse {
			r.Violate("nonce-reuse", sigp+" nonce-reuse", "%s: %s", tag, e)
		}
		if v.Resumed != (conn == 1) {
			r.Violate("monitor", sigp+" monitor-resumed", "%s: wire shows resumed=%v", tag, v.Resumed)
		}
		for dir := 0; dir < 2; dir++ {
			if !bytes.Equal(v.WireFinished[dir], v.CalcFinished[dir]) {
				r.Violate("finished", fmt.Sprintf("%s finished dir%d", sigp, dir), "%s: Finished of direction %d on the wire is %x, independent derivation gives %x", tag, dir, v.WireFinished[dir], v.CalcFinished[dir])
			}
		}
		var zero [12]byte
		fins := [2][2][12]byte{out.CFin, out.SFin}
		for side := 0; side < 2; side++ {
			for which := 0; which < 2; which++ {
				f := fins[side][which]
				if f != zero && !bytes.Equal(f[:], v.CalcFinished[which]) {
					r.Violate("finished", sigp+" finished-recorded", "%s: endpoint %d recorded Finished[%d]=%x, derivation gives %x", tag, side, which, f, v.CalcFinished[which])
				}
			}
		}
		if !v.Resumed && !IsECDHE(p.Suite) {
			if len(v.PreMaster) != 48 || v.PreMaster[0] != 0x01 || v.PreMaster[1] != 0x01 {
				r.Violate("premaster", sigp+" premaster-version", "%s: pre-master secret does not start with the client version: %x", tag, v.PreMaster[:2])
			}
		}
		if !bytes.Equal(cat(v.AppData[0]), cat(c2s)) || !bytes.Equal(cat(v.AppData[1]), cat(s2c)) {
			r.Violate("appdata", sigp+" wire-appdata", "%s: application records opened by the monitor do not concatenate to the written bytes (c2s %d/%d, s2c %d/%d)", tag, len(cat(v.AppData[0])), len(cat(c2s)), len(cat(v.AppData[1])), len(cat(s2c)))
		}
		for _, o := range v.Records {
			if len(o.Plain) > 16384 {
				r.Violate("record-size", sigp+" plaintext>16384", "%s: record with %d plaintext bytes", tag, len(o.Plain))
			}
			if o.WireLen > 16384+2048 {
				r.Violate("record-size", sigp+" ciphertext>18432", "%s: record with %d ciphertext bytes", tag, o.WireLen)
			}
			if o.Protected {
				r.Stat("records_opened", 1)
			}
		}
		// ---- cached master secrets
		sid := hex.EncodeToString(v.SH.SessionID)
		if !v.Resumed {
			sec.Sessions[sid] = v.Master
		}
		var cms, sms []byte
		if p.Stack == TLCP {
			cs, _ := env.TCaches["c"].Get("server:443")
			_, _, _, cms, _ = tlcp.VerifSession(cs)
			ss, _ := env.TCaches["s"].Get(sid)
			_, _, _, sms, _ = tlcp.VerifSession(ss)
		} else {
			cs, _ := env.DCaches["c"].Get("server:443")
			_, _, _, cms, _ = dtlcp.VerifSession(cs)
			ss, _ := env.DCaches["s"].Get(sid)
			_, _, _, sms, _ = dtlcp.VerifSession(ss)
		}
		if !bytes.Equal(cms, v.Master) || !bytes.Equal(sms, v.Master) {
			r.Violate("cached-master", sigp+" cached-master", "%s: cached master secret (client %x.., server %x..) differs from the derived one", tag, head(cms), head(sms))
		}
		outcome += fmt.Sprintf("%s:ok;", tag)
		r.Stat("handshakes_checked", 1)
		if len(v.AppData[0]) > 0 && len(v.AppData[1]) > 0 {
			r.Stat("nontrivial", 1)
		}
	}
	if ok && p.Stack == DTLCP {
		c04HeaderProbe(c, src, p, env, cc, sc, r, sigp)
	}
	if ok && p.Stack == TLCP && IsCBC(p.Suite) {
		c04RandFailProbe(c, src, p, env, cc, sc, sec, r, sigp)
	}
	r.Outcome = outcome
	r.Trivial = r.Stats["nontrivial"] < 2
	pj, _ := json.Marshal(p)
	r.Key = hashKey(string(pj))
	return r
}

func head(b []byte) []byte {
	if len(b) > 4 {
		return b[:4]
	}
	return b
}

// clipSig turns a free-text message into a signature fragment: digits are
// wildcarded so that one cause gives one signature.
func clipSig(s string) string {
	b := []byte(s)
	for i, c := range b {
		if c >= '0' && c <= '9' {
			b[i] = '#'
		}
	}
	s = string(b)
	if len(s) > 60 {
		return s[:60]
	}
	return s
}

// c04HeaderProbe is the receiving side of "sequence number, epoch, type, version and length are authenticated"
// on the datagram stack: a third (resumed) connection sends three records in one direction; the network
// first delivers copies of the first one with each header field changed in turn, then the genuine three.
// The receiver (ReadFrom or Read, drawn) must hand over exactly the three genuine payloads.
func c04HeaderProbe(c *Case, src *vs.Src, p *c04Params, env *Env, cc, sc *EPConf, r *Result, sigp string) {
	dirS2C := src.Intn(2) == 1
	api := pickStr(src, []string{"readfrom", "read"})
	// the three records straddle a power of two of the 48-bit record sequence number (0: they do not)
	var seqBase uint64
	if e := pickInt(src, []int{0, 0, 16, 24, 32, 40}); e > 0 {
		seqBase = 1<<uint(e) - 2
	}
	w := NewWorld(c.Seed+7, src)
	w.K.MaxElapsed = 60 * time.Second
	env.W = w
	pair := NewPair(DTLCP, env, cc, sc, "cp", "sp", "client:1", "server:443")
	sender, receiver := pair.DC, pair.DS
	sendDir := simnet.DirC2S
	if dirS2C {
		sender, receiver = pair.DS, pair.DC
		sendDir = simnet.DirS2C
	}
	holding := false
	var held []*simnet.Dgram
	pair.Net.Hook = func(d *simnet.Dgram) []*simnet.Dgram {
		if holding && d.Dir == sendDir {
			held = append(held, d)
			return []*simnet.Dgram{}
		}
		return nil
	}
	payloads := [][]byte{[]byte("probe-record-0"), []byte("probe-record-1"), []byte("probe-record-2")}
	fields := []string{"type", "version", "epoch+1", "epoch-1", "seq", "length"}
	var sErr, rErr, endErr error
	var got []string
	handshook, sentAll, injected := 0, false, false
	w.Go("sender", func() {
		if sErr = sender.Handshake(); sErr != nil {
			return
		}
		handshook++
		vs.Block(func() bool { return handshook == 2 }, time.Time{})
		holding = true
		if seqBase > 0 {
			dtlcp.VerifSetWriteSeq(sender, seqBase)
		}
		for _, b := range payloads {
			if _, err := sender.WriteTo(b, sender.RemoteAddr()); err != nil {
				sErr = err
				break
			}
		}
		sentAll = true
	})
	w.Go("network", func() {
		vs.Block(func() bool { return sentAll || sErr != nil }, time.Time{})
		if len(held) == 3 {
			k := 0
			put := func(b []byte) {
				k++
				pair.Net.Inject(&simnet.Dgram{Data: b, From: held[0].From, To: held[0].To, Dir: sendDir, At: vs.Now().Add(time.Duration(k) * time.Millisecond)})
			}
			for _, f := range fields {
				b := append([]byte(nil), held[0].Data...)
				switch f {
				case "type":
					b[0] = 22
				case "version":
					b[2] ^= 0x02
				case "epoch+1":
					binary.BigEndian.PutUint16(b[3:5], binary.BigEndian.Uint16(b[3:5])+1)
				case "epoch-1":
					binary.BigEndian.PutUint16(b[3:5], binary.BigEndian.Uint16(b[3:5])-1)
				case "seq":
					b[10] += 9
				case "length":
					binary.BigEndian.PutUint16(b[11:13], binary.BigEndian.Uint16(b[11:13])-1)
					b = b[:len(b)-1]
				}
				put(b)
			}
			for _, d := range held {
				put(d.Data)
			}
		}
		injected = true
	})
	w.Go("receiver", func() {
		if rErr = receiver.Handshake(); rErr != nil {
			return
		}
		handshook++
		vs.Block(func() bool { return injected }, time.Time{})
		buf := make([]byte, 2048)
		for len(got) < 20 {
			receiver.SetReadDeadline(vs.Now().Add(2 * time.Second))
			var n int
			var err error
			if api == "readfrom" {
				n, _, err = receiver.ReadFrom(buf)
			} else {
				n, err = receiver.Read(buf)
			}
			if err != nil {
				endErr = err
				return
			}
			got = append(got, string(buf[:n]))
		}
	})
	reason, unf := w.Run()
	w.Finish(r, sigp)
	sender.Close()
	receiver.Close()
	if reason != vs.Done || sErr != nil || rErr != nil || len(held) != 3 {
		r.Violate("probe-setup", sigp+" header-probe setup", "header probe: run ended with %q (unfinished %v), sender %v, receiver %v, %d records captured", reason, unf, sErr, rErr, len(held))
		return
	}
	if seqBase > 0 {
		for i, d := range held {
			if len(d.Data) >= 13 {
				var hs uint64
				for _, b := range d.Data[5:11] {
					hs = hs<<8 | uint64(b)
				}
				if hs != seqBase+uint64(i) {
					r.Violate("header-seq", sigp+" header-sequence-number", "record #%d after the write sequence number was moved to %#x carries sequence number %#x in its header", i, seqBase, hs)
				}
			}
		}
	}
	want := []string{string(payloads[0]), string(payloads[1]), string(payloads[2])}
	if strings.Join(got, "|") != strings.Join(want, "|") || !isTimeout(endErr) {
		r.Violate("header-auth", sigp+" header-field-not-authenticated "+api, "after copies of the first record with type / version / epoch / sequence number / length changed in the header, followed by the three genuine records (sequence numbers from %#x), %s delivered %q and ended with %v; expected exactly the three genuine payloads and then the read deadline", seqBase, api, got, endErr)
	}
	r.Stat("header_probe", 1)
}

// c04RandFailProbe: "per-record nonces and IVs never repeat under one key" when the application's random source
// stops working after the handshake (CBC draws an explicit IV per record). Writes may fail; a record that does
// leave must not carry an IV that was used before.
func c04RandFailProbe(c *Case, src *vs.Src, p *c04Params, env *Env, cc, sc *EPConf, sec *ref.Secrets, r *Result, sigp string) {
	w := NewWorld(c.Seed+9, src)
	w.K.MaxElapsed = 60 * time.Second
	env.W = w
	fail := false
	c2 := *cc
	c2.RandFail = &fail
	pair := NewPair(TLCP, env, &c2, sc, "cf", "sf", "client:1", "server:443")
	var hsErr error
	wrote, failed := 0, 0
	w.Go("client", func() {
		if hsErr = pair.C.Handshake(); hsErr != nil {
			pair.C.Close()
			return
		}
		pair.C.Write([]byte("before the source fails"))
		fail = true
		for i := 0; i < 6; i++ {
			if _, err := pair.C.Write(bytes.Repeat([]byte{byte(i)}, 100)); err != nil {
				failed++
			} else {
				wrote++
			}
		}
		pair.C.Close()
	})
	w.Go("server", func() {
		if err := pair.S.Handshake(); err != nil {
			pair.S.Close()
			return
		}
		buf := make([]byte, 4096)
		for {
			pair.S.SetReadDeadline(vs.Now().Add(3 * time.Second))
			if _, err := pair.S.Read(buf); err != nil {
				break
			}
		}
		pair.S.Close()
	})
	reason, unf := w.Run()
	w.Finish(r, sigp)
	if reason != vs.Done || hsErr != nil {
		r.Violate("probe-setup", sigp+" rand-fail-probe setup", "run ended with %q (unfinished %v), handshake %v", reason, unf, hsErr)
		return
	}
	sec.Eph = env.KeyOps.Eph
	v := pair.Observe(sec)
	for _, e := range v.NonceReuse {
		r.Violate("nonce-reuse", sigp+" iv-reuse-after-rand-failure", "after Config.Rand began to fail, %d Writes succeeded and %d failed; on the wire: %s", wrote, failed, e)
	}
	r.Stat("rand_fail_probe", 1)
}

// c04Foreign: the library against the independent reference endpoint (stream stack).
func c04Foreign(c *Case, src *vs.Src, p *c04Params, r *Result) *Result {
	sigp := fmt.Sprintf("C04 tlcp %s foreign-peer library=%s", SuiteName(p.Suite), p.ForeignRole)
	pj, _ := json.Marshal(p)
	r.Key = hashKey(string(pj))
	w := NewWorld(c.Seed, src)
	w.K.MaxElapsed = 60 * time.Second
	env := NewEnv(w)
	realIsClient := p.ForeignRole == "client"
	o := &peer.Opts{Suites: []uint16{p.Suite}}
	var rc *EPConf
	var script []string
	if realIsClient {
		rc = &EPConf{Suites: []uint16{p.Suite}, ServerName: "server.test", Certs: []string{"client_sig", "client_enc"}}
		o.Certs, o.SigKey, o.EncKey, o.CAs = ders("server_sig", "server_enc"), sm2Key("server_sig"), sm2Key("server_enc"), subjects("ca1")
		script = []string{"rCH", "SH", "CERT", "SKX"}
		if IsECDHE(p.Suite) {
			script = append(script, "CR")
		}
		script = append(script, "SHD", "rFLIGHT", "CCS", "FIN")
	} else {
		rc = &EPConf{Suites: []uint16{p.Suite}, Certs: []string{"server_sig", "server_enc"}, ClientCAs: []string{"ca1"}}
		o.SNI = "server.test"
		script = []string{"CH", "rFLIGHT"}
		// every second such case: the reference client picks its ephemeral key so that the agreed pre-master secret
		// begins with a zero byte
		o.GrindZero = IsECDHE(p.Suite) && len(p.C2S)%2 == 0
		if IsECDHE(p.Suite) {
			o.Certs, o.SigKey = ders("client_sig", "client_enc"), sm2Key("client_sig")
			script = append(script, "CERT", "CKE", "CV")
		} else {
			script = append(script, "CKE")
		}
		script = append(script, "CCS", "FIN", "rFLIGHT")
	}
	h := NewHalf(TLCP, env, rc, realIsClient, "real")
	if realIsClient {
		h.Peer.OwnEncKey = sm2Key("server_enc")
	} else {
		h.Peer.OwnEncKey = sm2Key("client_enc")
	}
	h.Peer.RandNonce = true
	toReal := mkPayloads(src, p.S2C, 7)
	fromReal := mkPayloads(src, p.C2S, 8)
	var hsErr, rdErr, wrErr error
	var got []byte
	var peerNote string
	var peerOut *peer.Outcome
	w.Go("real", func() {
		defer h.Real.Close()
		if hsErr = h.Real.Handshake(); hsErr != nil {
			return
		}
		got, rdErr = readFull(h.Real, len(cat(toReal)))
		if rdErr != nil {
			return
		}
		for _, b := range fromReal {
			if _, wrErr = h.Real.Write(b); wrErr != nil {
				return
			}
		}
	})
	w.Go("peer", func() {
		defer h.ClosePeerSide()
		peerOut = h.Peer.Run(o, script)
		if peerOut.Err != nil || !peerOut.Completed {
			peerNote = fmt.Sprintf("handshake: completed=%v finished-ok=%v stopped at %q: %v", peerOut.Completed, peerOut.FinishedOK, peerOut.StoppedAt, peerOut.Err)
			return
		}
		h.Peer.SetWritePad(3)
		for _, b := range toReal {
			if err := h.Peer.SendApp(b); err != nil {
				peerNote = "send: " + err.Error()
				return
			}
		}
		want := len(cat(fromReal))
		for n := 0; n < want; {
			before := len(h.Peer.AppData)
			out := h.Peer.Run(o, []string{"rAPP"})
			for _, d := range h.Peer.AppData[before:] {
				n += len(d)
			}
			if out.Err != nil && n < want {
				peerNote = fmt.Sprintf("reading the library's data (%d of %d bytes so far): %v", n, want, out.Err)
				return
			}
		}
	})
	reason, unf := w.Run()
	w.Finish(r, sigp)
	r.Outcome = reason
	if reason != vs.Done {
		r.Violate("not-ended", sigp+" not-ended "+reason, "run ended with %q, unfinished %v; library handshake %v, reference endpoint: %s", reason, unf, hsErr, peerNote)
		return r
	}
	if hsErr != nil || peerNote != "" && peerOut != nil && !peerOut.Completed {
		r.Violate("interop", sigp+" handshake-failed", "handshake between the library and the reference endpoint failed: library %v; reference endpoint %s", hsErr, peerNote)
		return r
	}
	if !peerOut.FinishedOK {
		r.Violate("interop", sigp+" finished-mismatch", "the library's Finished does not match the reference endpoint's transcript and master secret")
	}
	if rdErr != nil || !bytes.Equal(got, cat(toReal)) {
		r.Violate("interop", sigp+" records-not-opened", "the library read %d of the %d bytes the reference endpoint sent in %d records (error %v)", len(got), len(cat(toReal)), len(toReal), rdErr)
	}
	if wrErr != nil || peerNote != "" || !bytes.Equal(cat(h.Peer.AppData), cat(fromReal)) {
		r.Violate("interop", sigp+" records-not-readable", "the reference endpoint could not read what the library wrote: write error %v; %s; %d of %d bytes", wrErr, peerNote, len(cat(h.Peer.AppData)), len(cat(fromReal)))
	}
	r.Stat("foreign_peer_runs", 1)
	return r
}
