package props

import (
	"encoding/json"
	"fmt"
	"strings"
	"sync"
	"time"

	"gitee.com/Trisia/gotlcp/dtlcp"
	"gitee.com/Trisia/gotlcp/tlcp"
	"gitee.com/Trisia/gotlcp/vs"

	"verifsim/peer"
)

// C08 — each endpoint accepts exactly the message orders the standard allows.
type c08 struct{}

func init() { Register(c08{}) }

type c08Params struct {
	Stack string   `json:"stack"`
	Role  string   `json:"role"` // role of the REAL endpoint: client | server
	Flow  string   `json:"flow"` // ecc | ecc-cr | ecdhe | resumed  (client) ; ecc | ecc-auth | ecc-auth-nocert | ecdhe | resumed (server)
	Seq   []string `json:"seq"`  // kinds the scripted peer sends, in order
	Edit  string   `json:"edit"`
	// Pack: consecutive handshake messages the peer sends without reading in between share one record
	Pack bool `json:"pack,omitempty"`
	// Restart > 0 (stream stack): the application calls Handshake with a one-second deadline; the peer falls silent
	// after Restart messages of the flow; when the deadline has passed the application clears it and calls
	// Handshake again, and a peer that starts from scratch sends the complete flow. What the endpoint has then been
	// sent is Seq (the first Restart messages, then the whole flow): not a legal flow.
	Restart int `json:"restart,omitempty"`
	// DPack (datagram stack): everything the peer sends without reading in between (handshake messages,
	// ChangeCipherSpec, Finished) shares one datagram, as the library's own flights do
	DPack bool `json:"dpack,omitempty"`
}

func (c08) ID() string    { return "C08" }
func (c08) Level() string { return "exploration" }
func (c08) Rule() string {
	return "for every legal flow (client role: ECC, ECC with CertificateRequest, ECDHE, resumed; server role: ECC, ECC with client certificate under the policies require-and-verify / request / require-any, ECC with empty certificate, ECDHE, resumed) on both stacks: the unedited flow (control, must complete) and ALL single edits - omit, repeat, transpose adjacent, insert any kind of the alphabet (all handshake kinds, ChangeCipherSpec, warning alert, application data with and without payload, HelloRequest) at any position, ChangeCipherSpec left out while the keys are switched all the same, - plus runs of 16 and 17 warning alerts; every sequence also with consecutive handshake messages packed into one record; thorough adds seeded double and triple edits. The scripted peer keeps transcript and keys consistent with what it sent. Oracle: the real endpoint completes iff a prefix of the received kinds (warning alerts within the tolerance removed) is exactly a legal flow. Also (stream stack): restart after deadline - the application calls Handshake with a one-second deadline, the peer falls silent after k messages, the application clears the deadline and calls Handshake again while a peer that starts from scratch sends the whole flow (received: k messages, then a flow; not legal). Also: slip in - a ServerHelloDone or Certificate under the message_seq of the message before it and kept out of the sender's transcript, at every position; on the datagram stack every sequence also with each run of handshake messages / ChangeCipherSpec / Finished in ONE datagram, as the library's own flights are. distinct = distinct (stack, role, flow, sequence); non-trivial = the edited part was delivered before the endpoint finished"
}
func (c08) Components() (real, stub []string) {
	return []string{"tlcp/dtlcp client and server state machines (instrumented)", "session cache (resumed flows)"},
		[]string{"the other endpoint: scripted peer on package ref", "transport, clock, randomness, scheduler"}
}
func (c08) Assumptions() []string {
	return []string{"language of legal flows taken from the property statement (GB/T 38636 6.4.4); ECDHE requires CertificateRequest and both client certificates", "a datagram endpoint that ignores a message and keeps waiting counts as not completed"}
}

var c08ClientFlows = map[string][]string{ // what a real CLIENT receives
	"ecc":     {"SH", "CERT", "SKX", "SHD", "CCS", "FIN"},
	"ecc-cr":  {"SH", "CERT", "SKX", "CR", "SHD", "CCS", "FIN"},
	"ecdhe":   {"SH", "CERT", "SKX", "CR", "SHD", "CCS", "FIN"},
	"resumed": {"SH", "CCS", "FIN"},
}
var c08ServerFlows = map[string][]string{ // what a real SERVER receives
	"ecc":             {"CH", "CKE", "CCS", "FIN"},
	"ecc-auth":        {"CH", "CERT", "CKE", "CV", "CCS", "FIN"},
	"ecc-req":         {"CH", "CERT", "CKE", "CV", "CCS", "FIN"}, // policy RequestClientCert, the client does send one
	"ecc-any":         {"CH", "CERT", "CKE", "CV", "CCS", "FIN"}, // policy RequireAnyClientCert
	"ecc-auth-nocert": {"CH", "CERT", "CKE", "CCS", "FIN"},
	"ecdhe":           {"CH", "CERT", "CKE", "CV", "CCS", "FIN"},
	"resumed":         {"CH", "CCS", "FIN"},
}
var c08Alphabet = []string{"CH", "SH", "CERT", "SKX", "CR", "SHD", "CKE", "CV", "FIN", "CCS", "ALERTW", "APP", "APP0", "HREQ"}

var (
	c08Once  [2]sync.Once
	c08Lists [2][]c08Params
)

func c08Edits(base []string) (out [][]string, names []string) {
	cp := func(s []string) []string { return append([]string(nil), s...) }
	out, names = append(out, cp(base)), append(names, "control")
	for i := range base {
		s := append(cp(base[:i]), base[i+1:]...)
		out, names = append(out, s), append(names, fmt.Sprintf("omit %s@%d", base[i], i))
		s = append(cp(base[:i+1]), base[i:]...)
		out, names = append(out, s), append(names, fmt.Sprintf("repeat %s@%d", base[i], i))
		if i+1 < len(base) && base[i] != base[i+1] {
			s = cp(base)
			s[i], s[i+1] = s[i+1], s[i]
			out, names = append(out, s), append(names, fmt.Sprintf("transpose %s,%s@%d", base[i], base[i+1], i))
		}
	}
	for i := 0; i <= len(base); i++ {
		for _, k := range c08Alphabet {
			s := append(append(cp(base[:i]), k), base[i:]...)
			out, names = append(out, s), append(names, fmt.Sprintf("insert %s@%d", k, i))
		}
	}
	for i := 1; i <= len(base); i++ {
		// slipped in by somebody on the path: a message under the message_seq of the one before it (which a
		// datagram endpoint may take for a retransmission), not part of the sender's transcript
		for _, k := range []string{"~SHD", "~CERT"} {
			s := append(append(cp(base[:i]), k), base[i:]...)
			out, names = append(out, s), append(names, fmt.Sprintf("slip in %s@%d", k[1:], i))
		}
	}
	for i := range base {
		if base[i] == "CCS" {
			// ChangeCipherSpec left out, but the peer switches its keys all the same (what follows is protected)
			s := cp(base)
			s[i] = "CCS0"
			out, names = append(out, s), append(names, fmt.Sprintf("silent CCS@%d", i))
		}
	}
	for _, n := range []int{16, 17} {
		for _, at := range []int{1, len(base) - 1} {
			var run []string
			for j := 0; j < n; j++ {
				run = append(run, "ALERTW")
			}
			s := append(append(cp(base[:at]), run...), base[at:]...)
			out, names = append(out, s), append(names, fmt.Sprintf("%d warning alerts@%d", n, at))
		}
	}
	return
}

func c08List(tier string) []c08Params {
	ti := 0
	if tier == "thorough" {
		ti = 1
	}
	c08Once[ti].Do(func() {
		var out []c08Params
		for _, st := range []string{TLCP, DTLCP} {
			for _, role := range []string{"client", "server"} {
				flows := c08ClientFlows
				order := []string{"ecc", "ecc-cr", "ecdhe", "resumed"}
				if role == "server" {
					flows = c08ServerFlows
					order = []string{"ecc", "ecc-auth", "ecc-req", "ecc-any", "ecc-auth-nocert", "ecdhe", "resumed"}
				}
				for _, fl := range order {
					seqs, names := c08Edits(flows[fl])
					for i := range seqs {
						out = append(out, c08Params{Stack: st, Role: role, Flow: fl, Seq: seqs[i], Edit: names[i]})
					}
					if ti == 1 {
						// double edits: edit every single edit once more at a pseudo-random position
						for i := 1; i < len(seqs); i++ {
							s2, n2 := c08Edits(seqs[i])
							j := 1 + (i*7919)%(len(s2)-1)
							out = append(out, c08Params{Stack: st, Role: role, Flow: fl, Seq: s2[j], Edit: names[i] + " + " + n2[j]})
							j = 1 + (i*104729)%(len(s2)-1)
							out = append(out, c08Params{Stack: st, Role: role, Flow: fl, Seq: s2[j], Edit: names[i] + " + " + n2[j]})
						}
					}
				}
			}
		}
		for _, role := range []string{"client", "server"} {
			flows, order := c08ClientFlows, []string{"ecc", "ecdhe"}
			if role == "server" {
				flows, order = c08ServerFlows, []string{"ecc", "ecc-auth", "ecdhe"}
			}
			for _, fl := range order {
				for k := 1; k < len(flows[fl]); k++ {
					seq := append(append([]string(nil), flows[fl][:k]...), flows[fl]...)
					out = append(out, c08Params{Stack: TLCP, Role: role, Flow: fl, Seq: seq, Edit: fmt.Sprintf("restart after deadline@%d", k), Restart: k})
				}
			}
		}
		// every sequence once more with consecutive handshake messages packed into one record (legal framing:
		// what completes must be the same)
		for _, q := range append([]c08Params(nil), out...) {
			if q.Restart > 0 {
				continue
			}
			q.Pack = true
			out = append(out, q)
			if q.Stack == DTLCP {
				// and with every run of sends in one datagram (legal framing too)
				q.Pack, q.DPack = false, true
				out = append(out, q)
			}
		}
		c08Lists[ti] = out
	})
	return c08Lists[ti]
}

func (c08) Count(tier string) int { return len(c08List(tier)) }
func (c08) Make(tier string, seed uint64, i int) *Case {
	return &Case{Prop: "C08", Index: i, Seed: CaseSeed(seed, "C08", i), P: mustJSON(c08List(tier)[i])}
}

// c08Legal: does a prefix of the received kinds (warning alerts removed when within the tolerance) equal the flow?
func c08Legal(flow, got []string) bool {
	var f []string
	alerts := 0
	for _, k := range got {
		if k == "ALERTW" {
			alerts++
			if alerts > 16 {
				// the 17th consecutive non-advancing record is fatal; consecutive runs are what the generator produces
				return false
			}
			continue
		}
		if k != "CCS" && k != "CCS(protected)" {
			// the tolerance counts records that do not advance the handshake since the last handshake message or
			// application record; a ChangeCipherSpec in between does not start the count afresh (as in crypto/tls)
			alerts = 0
		}
		f = append(f, k)
		if len(f) == len(flow) {
			break
		}
	}
	if len(f) < len(flow) {
		return false
	}
	for i := range flow {
		if f[i] != flow[i] {
			return false
		}
	}
	return true
}

func (c08) Run(c *Case, src *vs.Src) *Result {
	r := &Result{}
	p := &c08Params{}
	if err := json.Unmarshal(c.P, p); err != nil {
		r.Infra = "bad params: " + err.Error()
		return r
	}
	r.Sample = p
	sigp := fmt.Sprintf("C08 %s %s %s", p.Stack, p.Role, p.Flow)
	realIsClient := p.Role == "client"
	suite := ECC_GCM
	if p.Flow == "ecdhe" {
		suite = ECDHE_CBC
	}
	var tcache tlcp.SessionCache = tlcp.NewLRUSessionCache(8)
	var dcache dtlcp.SessionCache = dtlcp.NewLRUSessionCache(8)
	var flow []string
	if realIsClient {
		flow = c08ClientFlows[p.Flow]
	} else {
		flow = c08ServerFlows[p.Flow]
	}
	type res struct {
		err      error
		cs       CS
		reason   string
		unf      []string
		sent     []string
		recv     []string
		master   []byte
		sid      []byte
		peerErr  string
	}
	run := func(seedOff uint64, seq []string, resumeID, resumeMaster []byte) *res {
		w := NewWorld(c.Seed+seedOff, src)
		w.K.MaxElapsed = 20 * time.Second
		env := NewEnv(w)
		env.TCaches["x"], env.DCaches["x"] = tcache, dcache
		var rc *EPConf
		o := &peer.Opts{Suites: []uint16{suite}}
		if realIsClient {
			rc = &EPConf{Suites: []uint16{suite}, ServerName: "server.test", Cache: "x", Certs: []string{"client_sig", "client_enc"}}
			o.Certs, o.SigKey, o.EncKey, o.CAs = ders("server_sig", "server_enc"), sm2Key("server_sig"), sm2Key("server_enc"), subjects("ca1")
			if resumeMaster != nil {
				o.Resume, o.Master = true, resumeMaster
			}
		} else {
			rc = &EPConf{Suites: []uint16{suite}, Certs: []string{"server_sig", "server_enc"}, ClientCAs: []string{"ca1"}, Cache: "x"}
			switch p.Flow {
			case "ecc-auth":
				rc.Auth = 4
			case "ecc-req":
				rc.Auth = 1
			case "ecc-any":
				rc.Auth = 2
			case "ecc-auth-nocert":
				rc.Auth = 3
			}
			o.SNI = "server.test"
			if p.Flow == "ecc-auth" || p.Flow == "ecdhe" || p.Flow == "ecc-req" || p.Flow == "ecc-any" {
				o.Certs, o.SigKey = ders("client_sig", "client_enc"), sm2Key("client_sig")
			}
			o.SessionID, o.Master = resumeID, resumeMaster
		}
		h := NewHalf(p.Stack, env, rc, realIsClient, "real")
		if realIsClient {
			h.Peer.OwnEncKey = sm2Key("server_enc")
		} else {
			h.Peer.OwnEncKey = sm2Key("client_enc")
		}
		out := &res{}
		w.Go("real", func() {
			if p.Restart > 0 {
				h.TReal.SetDeadline(vs.Now().Add(time.Second))
				out.err = h.Real.Handshake()
				if out.err != nil && isTimeout(out.err) {
					h.TReal.SetDeadline(time.Time{})
					out.err = h.Real.Handshake()
				}
				h.Real.Close()
				return
			}
			out.err = h.Real.Handshake()
			h.Real.Close()
		})
		if p.Restart > 0 {
			w.Go("peer", func() {
				// first attempt: the first Restart messages of the flow, then silence
				script := func(seq []string) (ops []string) {
					if realIsClient {
						ops = append(ops, "rCH")
						read := false
						for _, k := range seq {
							if (k == "CCS" || k == "FIN") && !read {
								ops, read = append(ops, "rFLIGHT"), true
							}
							ops = append(ops, k)
						}
						return ops
					}
					for i, k := range seq {
						ops = append(ops, k)
						if k == "CH" && i == 0 {
							ops = append(ops, "rFLIGHT")
						}
					}
					return ops
				}
				pr := h.Peer
				pr.Run(o, script(flow[:p.Restart]))
				out.sent = append(out.sent, pr.Sent...)
				vs.Sleep(1500 * time.Millisecond)
				// second attempt: a peer that starts from scratch on the same transport
				p2 := peer.New(false, pr.IsClient, pr.T, env.W.Rand("peer/restart"))
				p2.OwnEncKey = pr.OwnEncKey
				po := p2.Run(o, append(script(flow), "rFLIGHT"))
				if po.Err != nil {
					out.peerErr = fmt.Sprintf("%s: %v", po.StoppedAt, po.Err)
				}
				out.sent = append(out.sent, p2.Sent...)
				out.recv = append(pr.Received, p2.Received...)
				h.ClosePeerSide()
			})
		}
		w.Go("peer", func() {
			if p.Restart > 0 {
				return
			}
			pr := h.Peer
			var ops []string
			if realIsClient {
				ops = append(ops, "rCH")
				readDone := false
				for _, k := range seq {
					// the client answers ServerHelloDone with its flight, which carries the key exchange: read it
					// before anything that needs keys
					if (k == "CCS" || k == "CCS0" || k == "FIN") && !readDone && resumeMaster == nil {
						ops = append(ops, "rFLIGHT")
						readDone = true
					}
					ops = append(ops, k)
				}
				ops = append(ops, "rFLIGHT")
			} else {
				for i, k := range seq {
					ops = append(ops, k)
					if k == "CH" && i == firstIndex(seq, "CH") {
						ops = append(ops, "rFLIGHT")
					}
				}
				ops = append(ops, "rFLIGHT")
			}
			if p.Pack {
				ops = c08PackRuns(ops)
			}
			if p.DPack {
				ops = c08DgramRuns(ops)
			}
			po := pr.Run(o, ops)
			if po.Err != nil {
				out.peerErr = fmt.Sprintf("%s: %v", po.StoppedAt, po.Err)
			}
			out.sent, out.recv, out.master = pr.Sent, pr.Received, pr.Master
			if pr.SH != nil {
				out.sid = pr.SH.SessionID
			}
			h.ClosePeerSide()
		})
		out.reason, out.unf = w.Run()
		out.cs = h.Real.CS()
		w.Finish(r, sigp)
		return out
	}
	var o *res
	if p.Flow == "resumed" {
		// make the session with an honest full handshake first
		full := c08ClientFlows["ecc"]
		if !realIsClient {
			full = c08ServerFlows["ecc"]
		}
		first := run(0, full, nil, nil)
		if first.err != nil || !first.cs.Done {
			r.Violate("setup", sigp+" setup-failed", "honest full handshake failed: %v (%s) peer: %s sent %v", first.err, first.reason, first.peerErr, first.sent)
			return r
		}
		o = run(1, p.Seq, first.sid, first.master)
	} else {
		o = run(0, p.Seq, nil, nil)
	}
	r.Key = hashKey(p.Stack, p.Role, p.Flow, strings.Join(p.Seq, ","), p.Pack, p.DPack)
	if p.Pack {
		sigp += " packed"
	}
	if p.DPack {
		sigp += " one-datagram"
	}
	// a datagram endpoint whose peer falls silent keeps waiting (or retransmitting): "not completed"
	if o.reason != vs.Done && !((o.reason == vs.TimeUp || o.reason == vs.Deadlock) && p.Stack == DTLCP) {
		r.Violate("not-ended", sigp+" not-ended "+o.reason, "edit %q: run ended with %q, unfinished %v; real endpoint err=%v; peer sent %v", p.Edit, o.reason, o.unf, o.err, o.sent)
		return r
	}
	completed := o.err == nil && o.cs.Done
	// what the real endpoint was actually sent (the script may have stopped early when the endpoint had already given up)
	var delivered []string
	switched := false
	for _, k := range o.sent {
		if k == "CCS0" {
			switched = true
			continue // not a message: the peer switched its write keys without telling (nothing went on the wire)
		}
		if k == "CCS" && switched {
			k = "CCS(protected)" // a ChangeCipherSpec sent under the new keys is not the message the flow names
		}
		delivered = append(delivered, c08Kind(k))
	}
	if !realIsClient && p.Stack == DTLCP {
		for _, k := range o.recv {
			if k == "HelloVerifyRequest" {
				// the cookie-less ClientHello is not part of the flow
				if i := firstIndex(delivered, "CH"); i >= 0 {
					delivered = append(append([]string{}, delivered[:i]...), delivered[i+1:]...)
				}
				break
			}
		}
	}
	legal := c08Legal(flow, delivered)
	if realIsClient && (p.Flow == "ecc" || p.Flow == "ecc-cr") {
		// CertificateRequest is optional for the ECC suites
		legal = c08Legal(c08ClientFlows["ecc"], delivered) || c08Legal(c08ClientFlows["ecc-cr"], delivered)
	}
	if p.Flow == "resumed" && completed && !o.cs.Resumed {
		legal = true // the endpoint fell back to a full handshake, which the generic flow does not describe; not judged here
	}
	r.Outcome = fmt.Sprintf("completed=%v legal=%v", completed, legal)
	switch {
	case completed && !legal:
		r.Violate("illegal-flow-accepted", sigp+" accepted: "+editClass(p.Edit), "edit %q: the %s completed after receiving %v, which is not a legal flow %v", p.Edit, p.Role, delivered, flow)
	case !completed && legal:
		r.Violate("legal-flow-rejected", sigp+" rejected: "+editClass(p.Edit), "edit %q: the %s failed (%v, run %s) although it received the legal flow %v; peer: %s received %v", p.Edit, p.Role, o.err, o.reason, delivered, o.peerErr, o.recv)
	}
	r.Trivial = len(delivered) < len(p.Seq)-1 && !completed && false
	return r
}

func firstIndex(s []string, k string) int {
	for i, x := range s {
		if x == k {
			return i
		}
	}
	return -1
}

// c08Kind maps the peer's sent-log names back to script kinds.
func c08Kind(name string) string {
	switch name {
	case "ClientHello":
		return "CH"
	case "ServerHello":
		return "SH"
	case "Certificate":
		return "CERT"
	case "ServerKeyExchange":
		return "SKX"
	case "CertificateRequest":
		return "CR"
	case "ServerHelloDone":
		return "SHD"
	case "ClientKeyExchange":
		return "CKE"
	case "CertificateVerify":
		return "CV"
	case "Finished":
		return "FIN"
	case "ALERT(1,90)":
		return "ALERTW"
	}
	return name
}

// editClass drops positions so that one kind of deviation gives one signature.
func editClass(e string) string {
	out := []byte(e)
	for i, ch := range out {
		if ch >= '0' && ch <= '9' {
			out[i] = '#'
		}
	}
	return string(out)
}

// c08PackRuns wraps every run of two or more consecutive handshake-message sends in "[" "]".
func c08PackRuns(ops []string) []string {
	isHS := func(k string) bool {
		switch k {
		case "CH", "SH", "CERT", "SKX", "CR", "SHD", "CKE", "CV", "FIN":
			return true
		}
		return false
	}
	var out []string
	for i := 0; i < len(ops); {
		j := i
		for j < len(ops) && isHS(ops[j]) {
			j++
		}
		if j-i >= 2 {
			out = append(out, "[")
			out = append(out, ops[i:j]...)
			out = append(out, "]")
			i = j
			continue
		}
		out = append(out, ops[i])
		i++
	}
	return out
}

// c08DgramRuns wraps every run of two or more consecutive sends (anything that is not a read) in "{" "}".
func c08DgramRuns(ops []string) []string {
	// (alerts and application data are left in datagrams of their own: what the record layer does with the rest of
	// a datagram behind them is not a matter of message order)
	isSend := func(k string) bool {
		switch k {
		case "CH", "SH", "CERT", "SKX", "CR", "SHD", "CKE", "CV", "FIN", "CCS", "HREQ":
			return true
		}
		return false
	}
	var out []string
	for i := 0; i < len(ops); {
		j := i
		for j < len(ops) && isSend(ops[j]) {
			j++
		}
		if j-i >= 2 {
			out = append(out, "{")
			out = append(out, ops[i:j]...)
			out = append(out, "}")
			i = j
			continue
		}
		if j == i {
			j = i + 1
		}
		out = append(out, ops[i:j]...)
		i = j
	}
	return out
}
