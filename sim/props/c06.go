package props

import (
	"context"
	"bytes"
	"encoding/json"
	"fmt"
	"io"
	"time"

	"gitee.com/Trisia/gotlcp/vs"

	"verifsim/ref"
)

// C06 — the protected stream is delivered exactly, in order, within record size limits.
type c06 struct{}

func init() { Register(c06{}) }

type c06Params struct {
	Suite  uint16 `json:"suite"`
	DynOff bool   `json:"dyn_off"`
	Seg    int    `json:"seg"`
	C2S    []int  `json:"c2s"` // write sizes client -> server
	S2C    []int  `json:"s2c"`
	RBuf   []int  `json:"rbuf"` // read buffer sizes, used cyclically
	// ServerFirst: the server (which sends the last Finished of a full handshake) writes its data at once, so
	// that its first application records may share a transport segment with ChangeCipherSpec and Finished
	ServerFirst bool `json:"server_first,omitempty"`
	// ChainPad: extra certificates in the server's chain so that the Certificate message exceeds one record
	ChainPad int `json:"chain_pad,omitempty"`
	// EOFJoin: the transport reports end-of-stream together with the last bytes. Hold > 0: after the handshake the
	// client's data pauses for two seconds Hold bytes into its first record (5 = right behind the header) while
	// the server reads with one-second deadlines and simply tries again after a timeout
	EOFJoin bool `json:"eof_join,omitempty"`
	Hold    int  `json:"hold,omitempty"`
	// Poll: before it writes, the client looks for early data from the server with a 100 ms read deadline (there is
	// none: the Read times out), and writes 200 ms later, the expired read deadline still in place; it clears the
	// read deadline only before it reads again
	Poll bool `json:"poll,omitempty"`
	// Duplex: both directions at once - on each end one task writes while another reads (Reads begin while a Write
	// of the same connection is in flight and the other way round)
	Duplex bool `json:"duplex,omitempty"`
	// HSCtx: both ends run the handshake through HandshakeContext with a context of their own and release it
	// (cancel) as soon as the handshake has succeeded, as `defer cancel()` does: the connection must not care
	HSCtx bool `json:"hs_ctx,omitempty"`
}

func (c06) ID() string    { return "C06" }
func (c06) Level() string { return "exploration" }
func (c06) Rule() string {
	return "each case: suite x dynamic-record-sizing on/off x transport segmentation (whole / random 1..available / one byte per transport read) x a sequence of write sizes per direction drawn around the interesting boundaries (0, 1, the 1208-byte ramp, 16383/16384/16385, multiples of 16384 up to 4x; runs of 1..40 writes without payload) x a cycle of read-buffer sizes from 1 byte to 64 KiB. The client writes, half-closes (CloseWrite), the server reads to EOF, writes, closes, the client reads to EOF; in a third of the cases the server writes first, straight after its Finished; in a sixth the server's certificate chain makes the Certificate message 15-45 KB; the transport may report end-of-stream together with the last bytes; the client's data may pause for two seconds a few bytes into its first record while the server reads with one-second deadlines and tries again after each timeout. Oracle: every Write returns its length; concatenated reads equal concatenated writes followed by io.EOF; the wire monitor opens every record: plaintext <= 16384, ciphertext <= 16384+2048. In a quarter of the client-first cases the client first polls for early data with a 100 ms read deadline (times out), writes 200 ms later with the expired read deadline still in place and clears it only before it reads. In a fifth of the cases both directions run at once: on each end one task writes while another reads. In a quarter of the cases both ends handshake through HandshakeContext with a context of their own that they cancel as soon as the handshake has succeeded. distinct = distinct parameter vectors; non-trivial = both directions carried data and ended in EOF"
}
func (c06) Components() (real, stub []string) {
	return []string{"tlcp.Conn client+server (instrumented): Write/Read/CloseWrite/Close, record splitting and reassembly"},
		[]string{"transport (segmentation chosen by the seed), randomness, scheduler"}
}
func (c06) Assumptions() []string {
	return []string{"package ref opens records correctly (validated by C04)", "transport is reliable and unbounded (writes never block)"}
}
func (c06) Count(tier string) int {
	if tier == "thorough" {
		return 30000
	}
	return 1000
}
func (c06) Make(tier string, seed uint64, i int) *Case {
	return &Case{Prop: "C06", Index: i, Seed: CaseSeed(seed, "C06", i)}
}

var c06Sizes = []int{0, 1, 2, 15, 16, 17, 1179, 1180, 1203, 1207, 1208, 1209, 2416, 4096, 16383, 16384, 16385, 16400, 32768, 32769, 49152, 65536, 65537}
var c06Bufs = []int{1, 2, 3, 7, 16, 64, 500, 1024, 4096, 16383, 16384, 16385, 20000, 65536}

func drawC06(src *vs.Src) *c06Params {
	p := &c06Params{Suite: AllSuites[src.Intn(4)], DynOff: src.Bool(1, 3), Seg: src.Intn(3)}
	budget := 200000
	if p.Seg == 2 {
		budget = 24000
	}
	draw := func() []int {
		n := 1 + src.Intn(6)
		var out []int
		for i := 0; i < n; i++ {
			var s int
			if src.Bool(2, 3) {
				s = c06Sizes[src.Intn(len(c06Sizes))]
			} else {
				s = src.Intn(40000)
			}
			if s > budget {
				s = budget
			}
			budget -= s
			out = append(out, s)
			if src.Bool(1, 12) {
				// a run of writes without payload (each must report 0 and must not disturb the stream,
				// however many there are)
				for k := 1 + src.Intn(40); k > 0; k-- {
					out = append(out, 0)
				}
			}
		}
		return out
	}
	p.C2S, p.S2C = draw(), draw()
	n := 1 + src.Intn(4)
	for i := 0; i < n; i++ {
		p.RBuf = append(p.RBuf, c06Bufs[src.Intn(len(c06Bufs))])
	}
	p.ServerFirst = src.Bool(1, 3)
	p.EOFJoin = src.Bool(1, 3)
	if !p.ServerFirst && src.Bool(1, 4) {
		p.Hold = pickInt(src, []int{3, 5, 6, 40, 200})
	}
	if src.Bool(1, 6) {
		p.ChainPad = 40 + src.Intn(80) // Certificate message of about 15-45 KB
	}
	p.Poll = !p.ServerFirst && src.Bool(1, 4)
	if src.Bool(1, 5) {
		p.Duplex, p.Poll, p.Hold, p.ServerFirst = true, false, 0, false
	}
	p.HSCtx = src.Bool(1, 4)
	if p.Seg == 2 || src.Bool(1, 2) {
		// avoid quadratic cost of tiny buffers over large data: make sure one large buffer is in the cycle
		p.RBuf = append(p.RBuf, 16384)
	}
	return p
}

type c06Side struct {
	HSErr    error
	WriteErr string
	Got      []byte
	ReadErr  error
	Reads    int
	CloseErr error
}

func readToEnd(ep EP, bufs []int, st *c06Side) { readToEndRetry(ep, bufs, st, false) }

// readToEndRetry: with retry, every Read has a one-second deadline and a timeout just means "try again".
func readToEndRetry(ep EP, bufs []int, st *c06Side, retry bool) {
	i := 0
	timeouts := 0
	for {
		b := make([]byte, bufs[i%len(bufs)])
		i++
		if retry {
			ep.SetReadDeadline(vs.Now().Add(time.Second))
		}
		n, err := ep.Read(b)
		if retry && err != nil && isTimeout(err) && timeouts < 20 {
			// (twenty timeouts in a row without a byte: the connection is not coming back)
			timeouts++
			st.Reads++
			st.Got = append(st.Got, b[:n]...)
			continue
		}
		if n > 0 {
			timeouts = 0
		}
		st.Reads++
		st.Got = append(st.Got, b[:n]...)
		if err != nil {
			st.ReadErr = err
			return
		}
		if st.Reads > 2000000 {
			st.ReadErr = fmt.Errorf("harness: too many reads")
			return
		}
	}
}

func writeAll(ep EP, bufs [][]byte, st *c06Side) bool {
	for i, b := range bufs {
		n, err := ep.Write(b)
		if err != nil || n != len(b) {
			st.WriteErr = fmt.Sprintf("write #%d of %d bytes returned n=%d err=%v", i, len(b), n, err)
			return false
		}
	}
	return true
}

func (c06) Run(c *Case, src *vs.Src) *Result {
	r := &Result{}
	var p *c06Params
	if c.P != nil {
		p = &c06Params{}
		if err := json.Unmarshal(c.P, p); err != nil {
			r.Infra = "bad params: " + err.Error()
			return r
		}
	} else {
		p = drawC06(src)
	}
	r.Sample = p
	w := NewWorld(c.Seed, src)
	w.K.MaxSteps = 20000000
	w.K.MaxElapsed = 300 * time.Second
	env := NewEnv(w)
	cc := &EPConf{Suites: []uint16{p.Suite}, ServerName: "server.test", DynOff: p.DynOff}
	sc := &EPConf{Suites: []uint16{p.Suite}, Certs: []string{"server_sig", "server_enc"}, DynOff: p.DynOff, ChainPad: p.ChainPad}
	if IsECDHE(p.Suite) {
		cc.Certs = []string{"client_sig", "client_enc"}
		sc.WrapKeys = true
	}
	pair := NewPair(TLCP, env, cc, sc, "c", "s", "client:1", "server:443")
	pair.Pipe.C.Seg, pair.Pipe.S.Seg = p.Seg, p.Seg
	pair.Pipe.C.EOFJoin, pair.Pipe.S.EOFJoin = p.EOFJoin, p.EOFJoin
	c2s, s2c := mkPayloads(src, p.C2S, 1), mkPayloads(src, p.S2C, 100)
	var cs, ss c06Side
	hs := func(ep EP) error {
		if !p.HSCtx {
			return ep.Handshake()
		}
		ctx, cancel := context.WithCancel(context.Background())
		err := ep.(tEP).Conn.HandshakeContext(ctx)
		cancel()
		if err == nil {
			// give whatever the library hung on the context a moment (real time) to act
			time.Sleep(200 * time.Microsecond)
		}
		return err
	}
	if p.Duplex {
		cUp, sUp, cRd, sWr := false, false, false, false
		w.Go("client", func() {
			cs.HSErr = hs(pair.C)
			cUp = true
			if cs.HSErr != nil {
				pair.C.Close()
				return
			}
			if writeAll(pair.C, c2s, &cs) {
				cs.CloseErr = pair.C.CloseWrite()
			}
			vs.Block(func() bool { return cRd }, vs.Now().Add(200*time.Second))
			pair.C.Close()
		})
		w.Go("client-reader", func() {
			vs.Block(func() bool { return cUp }, time.Time{})
			if cs.HSErr == nil {
				readToEnd(pair.C, p.RBuf, &cs)
			}
			cRd = true
		})
		w.Go("server", func() {
			ss.HSErr = hs(pair.S)
			sUp = true
			if ss.HSErr != nil {
				pair.S.Close()
				return
			}
			readToEnd(pair.S, p.RBuf, &ss)
			vs.Block(func() bool { return sWr }, vs.Now().Add(200*time.Second))
			ss.CloseErr = pair.S.Close()
		})
		w.Go("server-writer", func() {
			vs.Block(func() bool { return sUp }, time.Time{})
			if ss.HSErr == nil {
				writeAll(pair.S, s2c, &ss)
			}
			sWr = true
		})
	}
	w.Go("client", func() {
		if p.Duplex {
			return
		}
		if cs.HSErr = hs(pair.C); cs.HSErr != nil {
			pair.C.Close()
			return
		}
		if p.Poll {
			pair.C.SetReadDeadline(vs.Now().Add(100 * time.Millisecond))
			n, err := pair.C.Read(make([]byte, 16))
			if n != 0 || err == nil || !isTimeout(err) {
				cs.WriteErr = fmt.Sprintf("poll before any data: Read returned n=%d err=%v, want a timeout", n, err)
			}
			vs.Sleep(200 * time.Millisecond)
		}
		if !writeAll(pair.C, c2s, &cs) {
			pair.C.Close()
			return
		}
		cs.CloseErr = pair.C.CloseWrite()
		if p.Poll {
			pair.C.SetReadDeadline(time.Time{})
		}
		readToEnd(pair.C, p.RBuf, &cs)
		pair.C.Close()
	})
	w.Go("server", func() {
		if p.Duplex {
			return
		}
		if ss.HSErr = hs(pair.S); ss.HSErr != nil {
			pair.S.Close()
			return
		}
		if p.ServerFirst {
			writeAll(pair.S, s2c, &ss)
			readToEnd(pair.S, p.RBuf, &ss)
		} else if p.Hold > 0 {
			pair.Pipe.S.ArmHold(p.Hold, 2*time.Second)
			readToEndRetry(pair.S, p.RBuf, &ss, true)
			pair.S.SetReadDeadline(time.Time{})
			writeAll(pair.S, s2c, &ss)
		} else {
			readToEnd(pair.S, p.RBuf, &ss)
			writeAll(pair.S, s2c, &ss)
		}
		ss.CloseErr = pair.S.Close()
	})
	reason, unf := w.Run()
	sigp := "C06 " + SuiteName(p.Suite)
	w.Finish(r, sigp)
	defer func() {
		pj, _ := json.Marshal(p)
		r.Key = hashKey(string(pj))
	}()
	if reason != vs.Done {
		r.Violate("not-ended", sigp+" not-ended "+reason, "run ended with %q, unfinished %v", reason, unf)
		return r
	}
	if cs.HSErr != nil || ss.HSErr != nil {
		r.Violate("handshake-failed", sigp+" handshake-failed", "client %v server %v", cs.HSErr, ss.HSErr)
		return r
	}
	if cs.WriteErr != "" || ss.WriteErr != "" {
		r.Violate("write", sigp+" write-result", "client: %s server: %s", cs.WriteErr, ss.WriteErr)
	}
	if cs.CloseErr != nil {
		r.Violate("closewrite", sigp+" closewrite-error", "CloseWrite returned %v", cs.CloseErr)
	}
	check := func(who string, got []byte, rerr error, want [][]byte) {
		if !bytes.Equal(got, cat(want)) {
			i := 0
			wb := cat(want)
			for i < len(got) && i < len(wb) && got[i] == wb[i] {
				i++
			}
			r.Violate("data", sigp+" data-mismatch", "%s read %d bytes, peer wrote %d; first difference at offset %d", who, len(got), len(wb), i)
		}
		if rerr != io.EOF {
			r.Violate("eof", sigp+" no-eof", "%s: stream ended with %v instead of io.EOF", who, rerr)
		}
	}
	check("server", ss.Got, ss.ReadErr, c2s)
	check("client", cs.Got, cs.ReadErr, s2c)
	// wire monitor: record size limits
	sec := &ref.Secrets{KeyFor: keyResolver("server_sig", "server_enc", "client_sig", "client_enc"), Eph: env.KeyOps.Eph, Sessions: map[string][]byte{}}
	v := pair.Observe(sec)
	for _, e := range v.Errors {
		r.Violate("monitor", sigp+" monitor: "+clipSig(e), "%s", e)
	}
	maxPlain, maxWire := 0, 0
	for _, o := range v.Records {
		if len(o.Plain) > maxPlain {
			maxPlain = len(o.Plain)
		}
		if o.WireLen > maxWire {
			maxWire = o.WireLen
		}
		if len(o.Plain) > 16384 {
			r.Violate("record-size", sigp+" plaintext>16384", "record (dir %d, type %d) carries %d plaintext bytes", o.Dir, o.Type, len(o.Plain))
		}
		if o.WireLen > 16384+2048 {
			r.Violate("record-size", sigp+" ciphertext>18432", "record (dir %d, type %d) carries %d ciphertext bytes", o.Dir, o.Type, o.WireLen)
		}
		if o.Type == ref.RecAppData {
			r.Stat("app_records", 1)
		}
	}
	if !bytes.Equal(cat(v.AppData[0]), cat(c2s)) || !bytes.Equal(cat(v.AppData[1]), cat(s2c)) {
		r.Violate("appdata", sigp+" wire-appdata", "application records on the wire do not concatenate to the written bytes")
	}
	if maxPlain == 16384 {
		r.Stat("probe_full_record", 1)
	}
	r.Stat("reads", cs.Reads+ss.Reads)
	r.Outcome = fmt.Sprintf("ok maxplain=%d", maxPlain)
	r.Trivial = len(cat(c2s)) == 0 || len(cat(s2c)) == 0
	return r
}
