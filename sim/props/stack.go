package props

import (
	"bytes"
	"crypto"
	"fmt"
	"io"
	"net"
	"time"

	"gitee.com/Trisia/gotlcp/dtlcp"
	"gitee.com/Trisia/gotlcp/tlcp"
	"gitee.com/Trisia/gotlcp/vs"
	"github.com/emmansun/gmsm/sm2"
	x509 "github.com/emmansun/gmsm/smx509"

	"verifsim/fix"
	"verifsim/simnet"
)

const (
	TLCP  = "tlcp"
	DTLCP = "dtlcp"
)

// Suite ids (same numbers in both stacks).
const (
	ECC_GCM   uint16 = 0xe053
	ECC_CBC   uint16 = 0xe013
	ECDHE_GCM uint16 = 0xe051
	ECDHE_CBC uint16 = 0xe011
)

var AllSuites = []uint16{ECC_GCM, ECC_CBC, ECDHE_GCM, ECDHE_CBC}

func SuiteName(id uint16) string {
	switch id {
	case ECC_GCM:
		return "ECC_GCM"
	case ECC_CBC:
		return "ECC_CBC"
	case ECDHE_GCM:
		return "ECDHE_GCM"
	case ECDHE_CBC:
		return "ECDHE_CBC"
	}
	return fmt.Sprintf("%04x", id)
}

func IsECDHE(id uint16) bool { return id == ECDHE_GCM || id == ECDHE_CBC }
func IsCBC(id uint16) bool   { return id == ECC_CBC || id == ECDHE_CBC }

// EPConf is the stack-independent description of an endpoint configuration.
// It is part of the case parameters (JSON) and is turned into a tlcp.Config or
// dtlcp.Config by Build.
type EPConf struct {
	Suites     []uint16 `json:"suites"` // nil: library default
	Certs      []string `json:"certs,omitempty"`
	Auth       int      `json:"auth,omitempty"`
	Roots      []string `json:"roots,omitempty"`
	ClientCAs  []string `json:"client_cas,omitempty"`
	ServerName string   `json:"sni,omitempty"`
	SkipVerify bool     `json:"skip_verify,omitempty"`
	ALPN       []string `json:"alpn,omitempty"`
	Cache      string   `json:"cache,omitempty"` // name of a session cache in the Env ("" = none)
	Clone      int      `json:"clone,omitempty"` // 0 direct, 1 Clone(), 2 via GetConfigForClient (server)
	DynOff     bool     `json:"dyn_off,omitempty"`
	VecParams  bool     `json:"vec_params,omitempty"` // ClientECDHEParamsAsVector
	// DTLCP only
	PMTU         int    `json:"pmtu,omitempty"`
	ReplayWindow int    `json:"replay_window,omitempty"`
	InitRTOms    int    `json:"init_rto_ms,omitempty"`
	MaxRTOms     int    `json:"max_rto_ms,omitempty"`
	CookieSecret string `json:"cookie_secret,omitempty"`
	// CookieSecretEmpty: Config.CookieSecret is an empty, non-nil slice (what an unset environment variable
	// gives): no secret is configured
	CookieSecretEmpty bool `json:"cookie_secret_empty,omitempty"`
	// TimeYear: Config.Time reports 1 January of this year instead of ConfigEpoch. RootPool: use this pool
	// object (so that two configurations share one) instead of building one from Roots.
	TimeYear int            `json:"time_year,omitempty"`
	RootPool *x509.CertPool `json:"-"`
	// RandFail, if set, makes Config.Rand return an error whenever *RandFail is true
	RandFail *bool `json:"-"`
	// OnVerify, if set, is installed as Config.VerifyConnection: it is told whether the handshake is a
	// resumption and how many peer certificates the connection state shows at that moment
	OnVerify func(resumed bool, peerCerts int) `json:"-"`
	// OuterPMTU (Clone 2): the PMTU of the listener configuration, when it differs from the PMTU of the
	// configuration GetConfigForClient returns (which is the one in force). ChainPad: that many copies of the CA
	// certificate are appended to the first certificate's chain (a Certificate message above the record limit).
	OuterPMTU int `json:"outer_pmtu,omitempty"`
	ChainPad  int `json:"chain_pad,omitempty"`
	// OuterWindow (Clone 2, dtlcp): the ReplayWindow of the listener configuration (-1: left at zero), when it
	// differs from that of the configuration GetConfigForClient returns
	OuterWindow int `json:"outer_window,omitempty"`
	// TrustedCAs (client): Config.TrustedCAIndications names three authorities (a key hash, a certificate hash, a
	// pre-agreed one), so that the ClientHello carries the trusted_ca_keys extension
	TrustedCAs bool `json:"trusted_cas,omitempty"`
	// CertVia: how the key pairs in Certs reach the configuration - 0 all static (Config.Certificates), 1 all
	// through the callbacks (server: GetCertificate / GetKECertificate, client: GetClientCertificate /
	// GetClientKECertificate), 2 the first static and the second through its callback
	CertVia int `json:"cert_via,omitempty"`
	// ShortRand: Config.Rand hands out at most 3 bytes per Read call (which an io.Reader may do) and counts
	// what it handed out in Env.RandBytes[name]
	ShortRand bool `json:"short_rand,omitempty"`
	// WrapKeys counts private-key operations through wrappers.
	WrapKeys bool `json:"wrap_keys,omitempty"`
}

// Env holds what outlives a connection: caches, key-use counters, random streams.
type Env struct {
	W       *World
	TCaches map[string]tlcp.SessionCache
	DCaches map[string]dtlcp.SessionCache
	KeyOps  *KeyOps
	// RandBytes counts, per endpoint name, the bytes a ShortRand reader handed out
	RandBytes map[string]*int
}

func NewEnv(w *World) *Env {
	return &Env{W: w, TCaches: map[string]tlcp.SessionCache{}, DCaches: map[string]dtlcp.SessionCache{}, KeyOps: &KeyOps{}, RandBytes: map[string]*int{}}
}

// ConfigEpoch is the time every endpoint configuration reports through Config.Time (all fixtures are judged at
// this date). It is not the kernel's wall clock, see vs.Epoch.
var ConfigEpoch = time.Date(2030, 1, 1, 0, 0, 0, 0, time.UTC)

// ConfigSkew is added to ConfigEpoch for the current case (C19 starts some runs just below a full minute).
var ConfigSkew time.Duration

// FixedTime is the clock the configurations report: ConfigEpoch (+ ConfigSkew) plus the virtual time that has
// passed in the run - a clock that runs, only not the wall clock.
//
//go:norace
func FixedTime() time.Time { return ConfigEpoch.Add(ConfigSkew + vs.Elapsed()) }

// shortReader is a legal but awkward io.Reader: never more than 3 bytes per call. Requests of one byte go
// through unchanged (DRand answers those without advancing, see DRand).
type shortReader struct {
	r io.Reader
	n *int
}

func (s shortReader) Read(p []byte) (int, error) {
	if len(p) > 3 {
		p = p[:3]
	}
	n, err := s.r.Read(p)
	if len(p) > 1 {
		*s.n += n
	}
	return n, err
}

type failingReader struct {
	r    io.Reader
	fail *bool
}

func (f failingReader) Read(p []byte) (int, error) {
	if *f.fail {
		return 0, fmt.Errorf("entropy source failed")
	}
	return f.r.Read(p)
}

func (e *EPConf) rand(env *Env, name string) io.Reader {
	if e.RandFail != nil {
		return failingReader{env.W.Rand(name), e.RandFail}
	}
	if !e.ShortRand {
		return env.W.Rand(name)
	}
	if env.RandBytes[name] == nil {
		env.RandBytes[name] = new(int)
	}
	return shortReader{env.W.Rand(name), env.RandBytes[name]}
}

// timeFn gives the Config.Time function of a description: the common date, or 1 January of TimeYear.
func (e *EPConf) timeFn() func() time.Time {
	if e.TimeYear == 0 {
		return FixedTime
	}
	t := time.Date(e.TimeYear, 1, 1, 0, 0, 0, 0, time.UTC)
	return func() time.Time { return t }
}

func (e *EPConf) rootPool() *x509.CertPool {
	if e.RootPool != nil {
		return e.RootPool
	}
	return pool(e.Roots)
}

func pool(names []string) *x509.CertPool {
	if names == nil {
		return fix.Pool("ca1")
	}
	if len(names) == 1 && names[0] == "none" {
		return nil // the field is left unset
	}
	return fix.Pool(names...)
}

func (e *EPConf) key(env *Env, name string) crypto.PrivateKey {
	k := fix.Key(name)
	if e.WrapKeys {
		if sk, ok := k.(*sm2.PrivateKey); ok {
			return WrapSM2(env.KeyOps, sk, env.W.Rand("eph/"+name))
		}
	}
	return k
}

// BuildTLCP turns the description into a tlcp.Config. name selects the random stream.
func (e *EPConf) BuildTLCP(env *Env, name string) *tlcp.Config {
	var tca []tlcp.TrustedAuthority
	if e.TrustedCAs {
		tca = []tlcp.TrustedAuthority{{IdentifierType: tlcp.IdentifierTypeCertSM3Hash, Identifier: bytesOf(0x5c, 32)}, {IdentifierType: tlcp.IdentifierTypePreAgreed}, {IdentifierType: tlcp.IdentifierTypeKeySM3Hash, Identifier: bytesOf(0x4b, 32)}}
	}
	c := &tlcp.Config{
		TrustedCAIndications:        tca,
		Rand:                        e.rand(env, name),
		Time:                        e.timeFn(),
		CipherSuites:                e.Suites,
		ClientAuth:                  tlcp.ClientAuthType(e.Auth),
		RootCAs:                     e.rootPool(),
		ClientCAs:                   pool(e.ClientCAs),
		ServerName:                  e.ServerName,
		InsecureSkipVerify:          e.SkipVerify,
		NextProtos:                  e.ALPN,
		DynamicRecordSizingDisabled: e.DynOff,
		ClientECDHEParamsAsVector:   e.VecParams,
	}
	if e.OnVerify != nil {
		f := e.OnVerify
		c.VerifyConnection = func(cs tlcp.ConnectionState) error { f(cs.DidResume, len(cs.PeerCertificates)); return nil }
	}
	for i, n := range e.Certs {
		chain := [][]byte{fix.DER(n)}
		if i == 0 {
			for k := 0; k < e.ChainPad; k++ {
				chain = append(chain, fix.DER("ca1"))
			}
		}
		c.Certificates = append(c.Certificates, tlcp.Certificate{Certificate: chain, PrivateKey: e.key(env, n)})
	}
	if e.CertVia != 0 && len(c.Certificates) > 0 {
		all := c.Certificates
		isClient := e.ServerName != "" || len(e.Roots) > 0
		keep := 0
		if e.CertVia == 2 {
			keep = 1
		}
		c.Certificates = append([]tlcp.Certificate(nil), all[:keep]...)
		if keep == 0 {
			if isClient {
				c.GetClientCertificate = func(*tlcp.CertificateRequestInfo) (*tlcp.Certificate, error) { return &all[0], nil }
			} else {
				c.GetCertificate = func(*tlcp.ClientHelloInfo) (*tlcp.Certificate, error) { return &all[0], nil }
			}
		}
		if len(all) > 1 {
			if isClient {
				c.GetClientKECertificate = func(*tlcp.CertificateRequestInfo) (*tlcp.Certificate, error) { return &all[1], nil }
			} else {
				c.GetKECertificate = func(*tlcp.ClientHelloInfo) (*tlcp.Certificate, error) { return &all[1], nil }
			}
		}
	}
	if e.Cache != "" {
		c.SessionCache = env.TCaches[e.Cache]
	}
	switch e.Clone {
	case 1:
		c = c.Clone()
	case 2:
		inner := c.Clone()
		outer := &tlcp.Config{Rand: c.Rand, Time: FixedTime, GetConfigForClient: func(*tlcp.ClientHelloInfo) (*tlcp.Config, error) { return inner, nil }}
		c = outer
	}
	return c
}

// BuildDTLCP turns the description into a dtlcp.Config.
func (e *EPConf) BuildDTLCP(env *Env, name string) *dtlcp.Config {
	var tca []dtlcp.TrustedAuthority
	if e.TrustedCAs {
		tca = []dtlcp.TrustedAuthority{{IdentifierType: dtlcp.IdentifierTypeCertSM3Hash, Identifier: bytesOf(0x5c, 32)}, {IdentifierType: dtlcp.IdentifierTypePreAgreed}, {IdentifierType: dtlcp.IdentifierTypeKeySM3Hash, Identifier: bytesOf(0x4b, 32)}}
	}
	c := &dtlcp.Config{
		TrustedCAIndications:      tca,
		Rand:                      e.rand(env, name),
		Time:                      e.timeFn(),
		CipherSuites:              e.Suites,
		ClientAuth:                dtlcp.ClientAuthType(e.Auth),
		RootCAs:                   e.rootPool(),
		ClientCAs:                 pool(e.ClientCAs),
		ServerName:                e.ServerName,
		InsecureSkipVerify:        e.SkipVerify,
		NextProtos:                e.ALPN,
		ClientECDHEParamsAsVector: e.VecParams,
		PMTU:                      e.PMTU,
		ReplayWindow:              e.ReplayWindow,
		InitialRetransmitTimeout:  time.Duration(e.InitRTOms) * time.Millisecond,
		MaxRetransmitTimeout:      time.Duration(e.MaxRTOms) * time.Millisecond,
		NewTimer: func(d time.Duration) *dtlcp.TimerHandle {
			t := vs.NewTimer(d)
			return &dtlcp.TimerHandle{C: t.C, Stop: t.Stop, Reset: t.Reset}
		},
	}
	if e.CookieSecret != "" {
		c.CookieSecret = []byte(e.CookieSecret)
	} else if e.CookieSecretEmpty {
		c.CookieSecret = []byte{}
	}
	if e.OnVerify != nil {
		f := e.OnVerify
		c.VerifyConnection = func(cs dtlcp.ConnectionState) error { f(cs.DidResume, len(cs.PeerCertificates)); return nil }
	}
	for i, n := range e.Certs {
		chain := [][]byte{fix.DER(n)}
		if i == 0 {
			for k := 0; k < e.ChainPad; k++ {
				chain = append(chain, fix.DER("ca1"))
			}
		}
		c.Certificates = append(c.Certificates, dtlcp.Certificate{Certificate: chain, PrivateKey: e.key(env, n)})
	}
	if e.CertVia != 0 && len(c.Certificates) > 0 {
		all := c.Certificates
		isClient := e.ServerName != "" || len(e.Roots) > 0
		keep := 0
		if e.CertVia == 2 {
			keep = 1
		}
		c.Certificates = append([]dtlcp.Certificate(nil), all[:keep]...)
		if keep == 0 {
			if isClient {
				c.GetClientCertificate = func(*dtlcp.CertificateRequestInfo) (*dtlcp.Certificate, error) { return &all[0], nil }
			} else {
				c.GetCertificate = func(*dtlcp.ClientHelloInfo) (*dtlcp.Certificate, error) { return &all[0], nil }
			}
		}
		if len(all) > 1 {
			if isClient {
				c.GetClientKECertificate = func(*dtlcp.CertificateRequestInfo) (*dtlcp.Certificate, error) { return &all[1], nil }
			} else {
				c.GetKECertificate = func(*dtlcp.ClientHelloInfo) (*dtlcp.Certificate, error) { return &all[1], nil }
			}
		}
	}
	if e.Cache != "" {
		c.SessionCache = env.DCaches[e.Cache]
	}
	switch e.Clone {
	case 1:
		c = c.Clone()
	case 2:
		inner := c.Clone()
		outer := c.Clone()
		outer.Certificates, outer.SessionCache = nil, nil
		if e.OuterPMTU != 0 {
			outer.PMTU = e.OuterPMTU
		}
		if e.OuterWindow > 0 {
			outer.ReplayWindow = e.OuterWindow
		} else if e.OuterWindow < 0 {
			outer.ReplayWindow = 0
		}
		outer.GetConfigForClient = func(*dtlcp.ClientHelloInfo) (*dtlcp.Config, error) { return inner, nil }
		c = outer
	}
	return c
}

// CS is the stack-independent view of a ConnectionState.
type CS struct {
	Done     bool
	Vers     uint16
	Suite    uint16
	ALPN     string
	Resumed  bool
	SNI      string
	Peer     [][]byte
	Verified int
}

func (a CS) String() string {
	return fmt.Sprintf("done=%v vers=%04x suite=%s alpn=%q resumed=%v peer=%d verified=%d", a.Done, a.Vers, SuiteName(a.Suite), a.ALPN, a.Resumed, len(a.Peer), a.Verified)
}

func rawCerts(cs []*x509.Certificate) [][]byte {
	var out [][]byte
	for _, c := range cs {
		out = append(out, c.Raw)
	}
	return out
}

func equalDERs(a, b [][]byte) bool {
	if len(a) != len(b) {
		return false
	}
	for i := range a {
		if !bytes.Equal(a[i], b[i]) {
			return false
		}
	}
	return true
}

// EP is the stack-independent view of a connection endpoint.
type EP interface {
	io.ReadWriteCloser
	Handshake() error
	CS() CS
	Fin() (client, server [12]byte)
	SetReadDeadline(time.Time) error
	CloseWrite() error
}

type tEP struct{ *tlcp.Conn }

func (e tEP) CS() CS {
	s := e.Conn.ConnectionState()
	return CS{s.HandshakeComplete, s.Version, s.CipherSuite, s.NegotiatedProtocol, s.DidResume, s.ServerName, rawCerts(s.PeerCertificates), len(s.VerifiedChains)}
}
func (e tEP) Fin() (c, s [12]byte) { return tlcp.VerifFinished(e.Conn) }

type dEP struct{ *dtlcp.Conn }

func (e dEP) CS() CS {
	s := e.Conn.ConnectionState()
	return CS{s.HandshakeComplete, s.Version, s.CipherSuite, s.NegotiatedProtocol, s.DidResume, s.ServerName, rawCerts(s.PeerCertificates), len(s.VerifiedChains)}
}
func (e dEP) Fin() (c, s [12]byte) { return dtlcp.VerifFinished(e.Conn) }

// Pair is a client and a server endpoint of one stack joined by a simulated transport.
type Pair struct {
	Stack  string
	C, S   EP
	TC, TS *tlcp.Conn
	DC, DS *dtlcp.Conn
	Pipe   *simnet.Pipe
	Net    *simnet.Net
	CP, SP *simnet.PacketConn
	CA, SA simnet.Addr
}

// NewPair builds transport and endpoints. ca/sa are the simulated addresses.
func NewPair(stack string, env *Env, cc, sc *EPConf, cname, sname string, ca, sa simnet.Addr) *Pair {
	p := &Pair{Stack: stack, CA: ca, SA: sa}
	if stack == TLCP {
		p.Pipe = simnet.NewPipe(ca, sa)
		p.TC = tlcp.Client(p.Pipe.C, cc.BuildTLCP(env, cname))
		p.TS = tlcp.Server(p.Pipe.S, sc.BuildTLCP(env, sname))
		p.C, p.S = tEP{p.TC}, tEP{p.TS}
	} else {
		p.Net = simnet.NewNet()
		p.CP = p.Net.Listen(ca, simnet.DirC2S)
		p.SP = p.Net.Listen(sa, simnet.DirS2C)
		p.DC = dtlcp.Client(p.CP, sa, cc.BuildDTLCP(env, cname))
		p.DS = dtlcp.Server(p.SP, ca, sc.BuildDTLCP(env, sname))
		p.C, p.S = dEP{p.DC}, dEP{p.DS}
	}
	return p
}

// CloseTransport closes both transport ends (used to unblock after a failed handshake).
func (p *Pair) CloseTransport() {
	if p.Pipe != nil {
		p.Pipe.C.Close()
		p.Pipe.S.Close()
	} else {
		p.CP.Close()
		p.SP.Close()
	}
}

var _ net.Conn = (*simnet.Conn)(nil)
var _ net.PacketConn = (*simnet.PacketConn)(nil)

func bytesOf(b byte, n int) []byte {
	out := make([]byte, n)
	for i := range out {
		out[i] = b
	}
	return out
}
