package props

import (
	"encoding/json"
	"fmt"
	"io"
	"time"

	"gitee.com/Trisia/gotlcp/dtlcp"
	"gitee.com/Trisia/gotlcp/tlcp"
	"gitee.com/Trisia/gotlcp/vs"

	"verifsim/peer"
	"verifsim/ref"
)

// C09 — no peer input makes an endpoint panic, spin, or buffer without bound.
type c09 struct{}

func init() { Register(c09{}) }

type c09Params struct {
	Stack string `json:"stack"`
	Role  string `json:"role"`  // role of the REAL endpoint
	Suite uint16 `json:"suite"` //
	Auth  bool   `json:"auth"`  // client certificates in play
	Mode  string `json:"mode"`  // mutate | raw | flood | certs
	// mutate: the peer is honest except for one message
	Kind string `json:"kind,omitempty"`
	Mut  string `json:"mut,omitempty"` // trunc | extend | flip | fill | replace | set
	Body []byte `json:"body,omitempty"` // set: the whole message body
	A    int    `json:"a,omitempty"`
	B    int    `json:"b,omitempty"`
	// raw: garbage at the record layer after the peer sent Step honest messages
	Step int    `json:"step,omitempty"`
	Raw  []byte `json:"raw,omitempty"`
	// flood: after completion
	Flood string `json:"flood,omitempty"`
	Mid   bool   `json:"mid,omitempty"` // flood after Step honest messages instead of after completion
	// certs: the server's client-authentication policy (1..5)
	Policy int `json:"policy,omitempty"`
	// ReadFrom (dtlcp): after the handshake the application reads with ReadFrom instead of Read
	ReadFrom bool `json:"read_from,omitempty"`
	N     int    `json:"n,omitempty"`
	// certs: certificate list with foreign key types
	Certs []string `json:"certs,omitempty"`
}

func (c09) ID() string    { return "C09" }
func (c09) Level() string { return "exploration" }
func (c09) Rule() string {
	return "each case: stack x role of the real endpoint x suite x client-auth, and one hostile behaviour of an otherwise honest scripted peer drawn from the seed: (mutate) one handshake message truncated at a drawn length / extended / with a byte flipped / with a length-looking field overwritten / replaced by 0-8 arbitrary bytes; (mutate, enumerated behind the random cases in both tiers) the body of ClientKeyExchange / CertificateVerify / ServerKeyExchange replaced by every short stop inside a DER header - tag 0x30, each length form (0x80, 0x81..0x84, 0xff), 0-4 bytes behind it, with and without a consistent two-byte vector length - 360 cases; (raw) arbitrary or structured garbage records after k honest messages; (certs) certificate lists with RSA, P-256 and Ed25519 keys in either position; (flood) after completion or after k honest messages: handshake records, empty records, warning alerts, huge-fragment announcements, many message sequence numbers, fragments that disagree about the total length, records of the previous epoch (DTLCP; the application reads with Read or ReadFrom), the header of a 16 MiB message packed behind an honest message followed by its body (stream). Oracle: no task panics, the endpoint yields within the watchdog and finishes or blocks waiting for input within the step budget, and the hook-reported buffered bytes stay within (65536+4 + one record) + (two records of read-ahead) on the stream stack and 256 reassembly buffers of <= 64 KiB on the datagram stack. Raw mode also sends one exactly framed record with a body of a boundary length (0, 1, 15..17, 31..33, 47..49, 63..65, 80), also behind the scripted side's ChangeCipherSpec / Finished; floods include datagrams shorter than a record header, and the simulated socket records the call-stack depth of every read (bound 120 frames: no recursion per ignored datagram). A third of the framed raw records announce more bytes than follow. distinct = distinct (parameters); non-trivial = the hostile bytes were delivered to a live endpoint"
}
func (c09) Components() (real, stub []string) {
	return []string{"tlcp/dtlcp client and server (instrumented): record layer, message parsers, key agreement, reassembly"},
		[]string{"hostile peer: scripted on package ref", "transport, clock, randomness, scheduler"}
}
func (c09) Assumptions() []string {
	return []string{"memory is what the read-only hook reports (hand/rawInput/input/sendBuf; handBuf/rawInputBuf/readBuf/pending fragments); allocations outside those buffers are not seen", "an endpoint that blocks waiting for more input has made no progress error: it is neither spinning nor panicking"}
}
func c09Random(tier string) int {
	if tier == "thorough" {
		return 300000
	}
	return 12000
}
func (c09) Count(tier string) int { return c09Random(tier) + len(c09DerCases()) }
func (c09) Make(tier string, seed uint64, i int) *Case {
	if n := c09Random(tier); i >= n {
		// the enumerated family sits behind the random cases, so that their case seeds stay what they were
		return &Case{Prop: "C09", Index: i, Seed: CaseSeed(seed, "C09", i), P: mustJSON(c09DerCases()[i-n])}
	}
	return &Case{Prop: "C09", Index: i, Seed: CaseSeed(seed, "C09", i)}
}

// c09DerCases enumerates, for the three messages whose body is a length-prefixed ASN.1 value (ClientKeyExchange,
// CertificateVerify, ServerKeyExchange of the ECC suites), every way a short body can stop inside the DER header:
// tag 0x30, each length form (indefinite, long form with one to four length bytes, 0xff), zero to four bytes
// behind it, with and without a consistent two-byte vector length in front. A parser that indexes the header
// before it has checked the length fails on one of them.
func c09DerCases() []*c09Params {
	var l []*c09Params
	for _, stack := range []string{TLCP, DTLCP} {
		for _, rk := range [][2]string{{"server", "CKE"}, {"server", "CV"}, {"client", "SKX"}} {
			for _, form := range []byte{0x80, 0x81, 0x82, 0x83, 0x84, 0xff} {
				for k := 0; k <= 4; k++ {
					for _, prefix := range []bool{true, false} {
						der := []byte{0x30, form}
						for j := 0; j < k; j++ {
							der = append(der, byte(j))
						}
						body := der
						if prefix {
							body = append([]byte{byte(len(der) >> 8), byte(len(der))}, der...)
						}
						l = append(l, &c09Params{Stack: stack, Role: rk[0], Suite: AllSuites[0], Auth: true, Mode: "mutate",
							Kind: rk[1], Mut: "set", Body: body})
					}
				}
			}
		}
	}
	return l
}

var c09ServerKinds = []string{"SH", "CERT", "SKX", "CR", "SHD", "FIN"}
var c09ClientKinds = []string{"CH", "CERT", "CKE", "CV", "FIN"}

func drawC09(src *vs.Src) *c09Params {
	p := &c09Params{}
	p.Stack = pickStr(src, []string{TLCP, DTLCP})
	p.Role = pickStr(src, []string{"client", "server"})
	p.Suite = AllSuites[src.Intn(4)]
	p.Auth = src.Bool(1, 2) || IsECDHE(p.Suite)
	switch src.Intn(10) {
	case 0, 1, 2, 3, 4, 5:
		p.Mode = "mutate"
		kinds := c09ServerKinds
		if p.Role == "server" {
			kinds = c09ClientKinds
		}
		p.Kind = kinds[src.Intn(len(kinds))]
		p.Mut = pickStr(src, []string{"trunc", "trunc", "extend", "flip", "fill", "replace", "replace"})
		p.A = src.Intn(1 << 16)
		p.B = src.Intn(256)
	case 6, 7:
		p.Mode = "raw"
		p.Step = src.Intn(6)
		n := src.Intn(64)
		if src.Bool(1, 4) {
			n = src.Intn(4000)
		}
		p.Raw = make([]byte, n)
		for i := range p.Raw {
			p.Raw[i] = byte(src.Intn(256))
		}
		if src.Bool(2, 3) && n >= 13 {
			// make it look like a record header so that the body is interpreted
			p.Raw[0] = byte(20 + src.Intn(5))
			p.Raw[1], p.Raw[2] = 1, 1
		}
		if src.Bool(1, 3) {
			// one exactly framed record with a body of a boundary length (empty, around one to five cipher blocks),
			// possibly behind the ChangeCipherSpec or the Finished of the scripted side - where it meets the
			// record protection
			p.Step = src.Intn(9)
			L := pickInt(src, []int{0, 1, 15, 16, 17, 31, 32, 33, 47, 48, 49, 63, 64, 65, 80})
			hdr := []byte{byte(20 + src.Intn(5)), 1, 1}
			if p.Stack == DTLCP {
				hdr = append(hdr, 0, byte(src.Intn(2)), 0, 0, 0, 0, 0, byte(src.Intn(8)))
			}
			hdr = append(hdr, byte(L>>8), byte(L))
			p.Raw = hdr
			for i := 0; i < L; i++ {
				p.Raw = append(p.Raw, byte(src.Intn(256)))
			}
			if L > 0 && src.Bool(1, 3) {
				// the header announces more than the datagram / the stream carries
				p.Raw = p.Raw[:len(hdr)+src.Intn(L)]
			}
		}
	case 8:
		p.Mode = "certs"
		pool := []string{"server_sig", "server_enc", "rsa_sig", "p256_sig", "p256_enc", "ed25519_sig", "client_sig", "client_enc"}
		n := 1 + src.Intn(3)
		for i := 0; i < n; i++ {
			p.Certs = append(p.Certs, pool[src.Intn(len(pool))])
		}
		p.Policy = 1 + src.Intn(5)
	default:
		p.Mode = "flood"
		p.Flood = pickStr(src, []string{"handshake", "empty-app", "warning", "hello-request", "big-fragments", "many-seqs", "tiny-fragments", "coalesced-oversize", "length-conflict", "old-epoch", "runts"})
		p.N = 20 + src.Intn(300)
		if src.Bool(1, 2) {
			// the flood arrives in the middle of the handshake, after Step honest messages (that is when a
			// datagram endpoint collects fragments); long enough to pass any fixed number of buffers
			p.Mid = true
			p.Step = src.Intn(6)
			p.N = 20 + src.Intn(700)
		}
	}
	p.ReadFrom = p.Stack == DTLCP && src.Bool(1, 2)
	return p
}

func c09Mutate(p *c09Params) func(kind string, body []byte) []byte {
	return func(kind string, body []byte) []byte {
		if kind != p.Kind {
			return body
		}
		b := append([]byte{}, body...)
		switch p.Mut {
		case "set":
			return append([]byte{}, p.Body...)
		case "trunc":
			if len(b) == 0 {
				return b
			}
			return b[:p.A%len(b)]
		case "extend":
			for i := 0; i < 1+p.B%9; i++ {
				b = append(b, byte(p.A+i))
			}
			return b
		case "flip":
			if len(b) > 0 {
				b[p.A%len(b)] ^= byte(1 << (p.B % 8))
			}
			return b
		case "fill":
			// overwrite a short run with 0x00 or 0xff: hits length fields
			if len(b) > 0 {
				at := p.A % len(b)
				v := byte(0)
				if p.B&1 == 1 {
					v = 0xff
				}
				for i := at; i < len(b) && i < at+1+p.B%3; i++ {
					b[i] = v
				}
			}
			return b
		case "replace":
			n := p.B % 9
			out := make([]byte, n)
			for i := range out {
				out[i] = byte(p.A >> (i % 2 * 8))
				if p.B&16 != 0 {
					out[i] = 0
				}
				if i == 2 && p.B&32 != 0 {
					out[i] = 0x30
				}
			}
			return out
		}
		return body
	}
}

// buffer bounds
const (
	c09MaxRecord   = 16384 + 2048 + 5
	c09BoundHand   = 65536 + 4 + c09MaxRecord
	c09BoundRaw    = 2*c09MaxRecord + 1024
	c09BoundDHand  = 65536 + 12 + 16384 + 2048 + 13
	c09BoundDFrags = 256
	// call-stack depth at which a datagram is read: a handshake reads from about thirty frames down; a fixed bound
	// well above that and well below the length of a flood
	c09BoundDepth = 120
)

func (c09) Run(c *Case, src *vs.Src) *Result {
	r := &Result{}
	var p *c09Params
	if c.P != nil {
		p = &c09Params{}
		if err := json.Unmarshal(c.P, p); err != nil {
			r.Infra = "bad params: " + err.Error()
			return r
		}
	} else {
		p = drawC09(src)
	}
	r.Sample = p
	sigp := fmt.Sprintf("C09 %s %s", p.Stack, p.Role)
	realIsClient := p.Role == "client"
	w := NewWorld(c.Seed, src)
	w.K.MaxElapsed = 20 * time.Second
	w.K.MaxSteps = 300000
	w.K.HangNs = 8e9
	w.K.MaxSteps = 40000 // the longest flood takes a few thousand steps; an endpoint that keeps answering the same input is cut short here
	env := NewEnv(w)
	var rc *EPConf
	o := &peer.Opts{Suites: []uint16{p.Suite}}
	if realIsClient {
		rc = &EPConf{Suites: []uint16{p.Suite}, ServerName: "server.test"}
		if p.Auth {
			rc.Certs = []string{"client_sig", "client_enc"}
		}
		o.Certs, o.SigKey, o.EncKey, o.CAs = ders("server_sig", "server_enc"), sm2Key("server_sig"), sm2Key("server_enc"), subjects("ca1")
	} else {
		rc = &EPConf{Suites: []uint16{p.Suite}, Certs: []string{"server_sig", "server_enc"}, ClientCAs: []string{"ca1"}}
		if p.Auth {
			rc.Auth = 4
			o.Certs, o.SigKey = ders("client_sig", "client_enc"), sm2Key("client_sig")
		}
		o.SNI = "server.test"
	}
	if p.Mode == "mutate" {
		o.Mutate = c09Mutate(p)
	}
	if p.Mode == "certs" {
		o.Certs = ders(p.Certs...)
		if realIsClient {
			rc.SkipVerify = true // get past chain building so that the key types reach the handshake code
		} else {
			rc.Auth = 2
			if p.Policy > 0 {
				rc.Auth = p.Policy
			}
		}
	}
	h := NewHalf(p.Stack, env, rc, realIsClient, "real")
	if realIsClient {
		h.Peer.OwnEncKey = sm2Key("server_enc")
	} else {
		h.Peer.OwnEncKey = sm2Key("client_enc")
	}
	var maxHand, maxRaw, maxFragN, maxFragB int
	sample := func() {
		if h.TReal != nil {
			hand, raw, _, _ := tlcp.VerifBuffered(h.TReal)
			if hand > maxHand {
				maxHand = hand
			}
			if raw > maxRaw {
				maxRaw = raw
			}
		} else {
			hand, raw, _, _, n, b := dtlcp.VerifBuffered(h.DReal)
			if hand > maxHand {
				maxHand = hand
			}
			if raw > maxRaw {
				maxRaw = raw
			}
			if n > maxFragN {
				maxFragN = n
			}
			if b > maxFragB {
				maxFragB = b
			}
		}
	}
	var realErr, readErr error
	var peerNote string
	realDone := false
	w.Go("real", func() {
		realErr = h.Real.Handshake()
		if realErr == nil {
			// application: keep reading (that is when post-handshake input is processed)
			buf := make([]byte, 4096)
			for i := 0; i < 100000; i++ {
				h.Real.SetReadDeadline(vs.Now().Add(3 * time.Second))
				var err error
				if p.ReadFrom && h.DReal != nil {
					_, _, err = h.DReal.ReadFrom(buf)
				} else {
					_, err = h.Real.Read(buf)
				}
				if err != nil {
					readErr = err
					break
				}
			}
		}
		h.Real.Close()
		realDone = true
	})
	w.Go("peer", func() {
		pr := h.Peer
		var ops []string
		requested := p.Auth || IsECDHE(p.Suite)
		if realIsClient {
			ops = []string{"rCH", "SH", "CERT", "SKX"}
			if requested {
				ops = append(ops, "CR")
			}
			ops = append(ops, "SHD", "rFLIGHT", "CCS", "FIN")
		} else {
			ops = []string{"CH", "rFLIGHT"}
			if requested {
				ops = append(ops, "CERT")
			}
			ops = append(ops, "CKE")
			if requested && len(o.Certs) > 0 {
				ops = append(ops, "CV")
			}
			ops = append(ops, "CCS", "FIN", "rFLIGHT")
		}
		if p.Mode == "raw" || (p.Mode == "flood" && p.Mid) {
			// cut the honest script after Step sends and throw the garbage in
			var cut []string
			sends := 0
			for _, op := range ops {
				if op[0] != 'r' {
					if sends == p.Step {
						break
					}
					sends++
				}
				cut = append(cut, op)
			}
			ops = cut
		}
		lastSend := -1
		if p.Mode == "flood" && p.Flood == "coalesced-oversize" && p.Mid {
			for i, op := range ops {
				if op[0] != 'r' {
					lastSend = i
				}
			}
		}
		for i, op := range ops {
			if i == lastSend {
				// the header of a message that announces 16 MiB rides in the same record as the last honest message
				pr.BeginPack()
				out := pr.Run(o, []string{op})
				pr.WriteRecord(ref.RecHandshake, []byte{0x10, 0xff, 0xff, 0xff})
				pr.EndPack()
				sample()
				if out.Err != nil {
					peerNote = fmt.Sprintf("%s: %v", op, out.Err)
					break
				}
				continue
			}
			out := pr.Run(o, []string{op})
			sample()
			if out.Err != nil {
				peerNote = fmt.Sprintf("%s: %v", op, out.Err)
				break
			}
		}
		if p.Mode == "raw" {
			pr.T.Send(p.Raw)
			sample()
			pr.Run(o, []string{"rFLIGHT"})
		}
		if p.Mode == "flood" && peerNote == "" {
			c09Flood(pr, p, sample)
		}
		sample()
		pr.Run(o, []string{"rAPP"})
		sample()
		h.ClosePeerSide()
	})
	reason, unf := w.Run()
	w.Finish(r, sigp)
	pj, _ := json.Marshal(p)
	r.Key = hashKey(string(pj))
	r.Outcome = fmt.Sprintf("%s err=%v", reason, realErr != nil)
	if reason == vs.Budget {
		r.Violate("livelock", sigp+" step-budget "+p.Mode+" "+p.Kind+p.Flood, "step budget exhausted: the endpoint keeps running without finishing (unfinished %v)", unf)
	}
	if reason == vs.Deadlock && p.Stack == TLCP && !realDone {
		// the peer closed its side at the end, so a stream endpoint must have seen EOF
		r.Violate("stuck", sigp+" stuck "+p.Mode, "endpoint still blocked although the peer closed the stream: %v", unf)
	}
	if p.Stack == TLCP {
		if maxHand > c09BoundHand {
			r.Violate("memory", sigp+" memory hand "+p.Mode+" "+p.Flood, "pending handshake bytes reached %d (bound %d)", maxHand, c09BoundHand)
		}
		if maxRaw > c09BoundRaw {
			r.Violate("memory", sigp+" memory rawInput "+p.Mode+" "+p.Flood, "raw input buffer reached %d (bound %d)", maxRaw, c09BoundRaw)
		}
	} else {
		if maxHand > c09BoundDHand {
			r.Violate("memory", sigp+" memory handBuf "+p.Mode+" "+p.Flood, "pending handshake bytes reached %d (bound %d)", maxHand, c09BoundDHand)
		}
		if maxFragN > c09BoundDFrags || maxFragB > c09BoundDFrags*(65536+8192+8) {
			r.Violate("memory", sigp+" memory fragments "+p.Mode+" "+p.Flood, "pending fragment state reached %d buffers / %d bytes", maxFragN, maxFragB)
		}
	}
	if h.RP != nil && h.RP.MaxDepth > c09BoundDepth {
		r.Violate("memory", sigp+" stack-depth "+p.Mode+" "+p.Flood, "the endpoint read a datagram from a call stack %d frames deep (bound %d): its stack grows with the number of datagrams it ignores", h.RP.MaxDepth, c09BoundDepth)
	}
	if p.Stack == TLCP && p.Mode == "flood" && (p.Flood == "empty-app" || p.Flood == "warning") && realErr == nil && p.N > 16 && peerNote == "" {
		// stream stack: records that neither advance the handshake nor deliver data are skipped by recursion,
		// so more than 16 in a row must be refused (on the datagram stack they are skipped in a loop and each
		// one is consumed: tolerating them costs nothing)
		if readErr == nil || isTimeout(readErr) || readErr == io.EOF || readErr == io.ErrUnexpectedEOF {
			r.Violate("flood-tolerated", sigp+" non-advancing-flood-tolerated "+p.Flood, "%d consecutive %s records after the handshake were all tolerated (application Read ended with %v)", p.N, p.Flood, readErr)
		} else {
			r.Stat("probe_flood_refused", 1)
		}
	}
	r.Stat("mode_"+p.Mode, 1)
	if realErr != nil {
		r.Stat("endpoint_returned_error", 1)
	}
	_ = peerNote
	return r
}

// c09Flood sends post-handshake (or mid-handshake, if the handshake did not complete) floods.
func c09Flood(pr *peer.Peer, p *c09Params, sample func()) {
	for i := 0; i < p.N; i++ {
		var err error
		switch p.Flood {
		case "handshake":
			// a maximum-size handshake record, over and over
			body := make([]byte, 16000)
			m := ref.Msg{Type: ref.TClientHello, Seq: uint16(1000 + i), Body: body}
			if pr.DTLS {
				err = pr.WriteRecord(ref.RecHandshake, m.Fragment(0, 1200))
			} else {
				err = pr.WriteRecord(ref.RecHandshake, m.Encode(false))
			}
		case "hello-request":
			m := ref.Msg{Type: 0, Seq: uint16(1000 + i)}
			err = pr.WriteRecord(ref.RecHandshake, m.Encode(pr.DTLS))
		case "empty-app":
			err = pr.WriteRecord(ref.RecAppData, nil)
		case "warning":
			err = pr.SendAlert(1, 90)
		case "big-fragments":
			// announce 64 KiB messages under ever new message sequence numbers, deliver one byte each
			m := ref.Msg{Type: ref.TCertificate, Seq: uint16(2000 + i), Body: make([]byte, 65536)}
			if pr.DTLS {
				err = pr.WriteRecord(ref.RecHandshake, m.Fragment(i%65536, 1))
			} else {
				err = pr.WriteRecord(ref.RecHandshake, []byte{ref.TCertificate, 0x01, 0x00, 0x00, 0})
			}
		case "many-seqs":
			m := ref.Msg{Type: ref.TFinished, Seq: uint16(i * 7), Body: make([]byte, 40)}
			if pr.DTLS {
				err = pr.WriteRecord(ref.RecHandshake, m.Fragment(0, 20))
			} else {
				err = pr.WriteRecord(ref.RecHandshake, m.Encode(false)[:10])
			}
		case "coalesced-oversize":
			// the body of the announced 16 MiB message, record after record (on the datagram stack: fragments of it)
			if pr.DTLS {
				m := ref.Msg{Type: ref.TClientKeyExchange, Seq: 4000, Body: make([]byte, 65536)}
				err = pr.WriteRecord(ref.RecHandshake, m.Fragment((i*1000)%64000, 1000))
			} else {
				err = pr.WriteRecord(ref.RecHandshake, make([]byte, 16000))
			}
		case "length-conflict":
			// fragments of one message_seq that disagree about the total length: a small one that the first
			// fragment almost fills, then one that claims a large total and completes the small buffer
			if pr.DTLS {
				seq := uint16(5000 + i)
				small := ref.Msg{Type: ref.TCertificate, Seq: seq, Body: make([]byte, 10)}
				large := ref.Msg{Type: ref.TCertificate, Seq: seq, Body: make([]byte, 1000)}
				if err = pr.WriteRecord(ref.RecHandshake, small.Fragment(0, 5+i%5)); err == nil {
					err = pr.WriteRecord(ref.RecHandshake, large.Fragment(5+i%5, 5-i%5))
				}
			} else {
				err = pr.WriteRecord(ref.RecHandshake, []byte{ref.TCertificate, 0, 0, 10, 1, 2, 3})
			}
		case "old-epoch":
			// records of the epoch before the current one (like a retransmitted last flight), then data
			if pr.DTLS {
				err = pr.T.Send(ref.BuildRecord(true, ref.RecCCS, pr.Vers, 0, uint64(40+i), []byte{1}))
				if err == nil && i%8 == 7 {
					err = pr.SendApp([]byte("data behind old-epoch records"))
				}
			} else {
				err = pr.SendAlert(1, 90)
			}
		case "runts":
			// datagrams shorter than a record header (stream stack: single bytes of a header that never completes
			// are not a flood; a warning alert stands in)
			if pr.DTLS {
				err = pr.T.Send(make([]byte, 1+i%12))
			} else {
				err = pr.SendAlert(1, 90)
			}
		case "tiny-fragments":
			m := ref.Msg{Type: ref.TCertificate, Seq: 3000, Body: make([]byte, 2000)}
			if pr.DTLS {
				err = pr.WriteRecord(ref.RecHandshake, m.Fragment(i%2000, 1))
			} else {
				err = pr.WriteRecord(ref.RecHandshake, []byte{0})
			}
		}
		sample()
		if err != nil {
			return
		}
	}
}
