package props

import (
	"bytes"
	"encoding/json"
	"fmt"
	"io"
	"sync"
	"time"

	"gitee.com/Trisia/gotlcp/vs"

	"verifsim/peer"
	"verifsim/ref"
	"verifsim/simnet"
)

// C05 — attacked record streams deliver only a correct prefix, then a permanent error.
type c05 struct{}

func init() { Register(c05{}) }

type c05Params struct {
	Suite  uint16          `json:"suite"`
	Dir    int             `json:"dir"` // direction under attack: 0 client->server, 1 server->client
	N      int             `json:"n"`   // number of application records written
	Len    int             `json:"len"` // bytes per record
	Faults []simnet.RFault `json:"faults"`
	Seg    int             `json:"seg"`
	// HalfClosed: the receiving application has shut down its own write side (CloseWrite) before the damaged
	// records arrive - it can no longer send an alert, but must fail and stay failed all the same
	HalfClosed bool `json:"half_closed,omitempty"`
	// PadBlocks > 0: the sender is the scripted reference endpoint, which pads its CBC records with that many
	// blocks more than the minimum (legal: the padding length byte allows up to 255); the receiver is the library
	PadBlocks int `json:"pad_blocks,omitempty"`
	// Duplex: while the damaged record arrives, another task of the receiving application is inside a Write that is
	// stuck in a full transport (the attacker holds the other direction back for a second, then lets it flow): the
	// alert has to wait for that Write, it must not be left out
	Duplex bool `json:"duplex,omitempty"`
}

func (c05) ID() string    { return "C05" }
func (c05) Level() string { return "fault_enumeration" }
func (c05) Rule() string {
	return "enumerated single faults on the protected application records of one direction after a clean handshake: XOR with masks 0x01/0x80/0xFF at every byte position (header, explicit nonce/IV, body, MAC/tag, padding) of a record, drop / duplicate / swap-with-next / cut-before of every record, truncation after every byte count of a record, injected records (plaintext and garbage, content types 20-24) before every record; both cipher modes (GCM, CBC), both directions; thorough adds large records, the ECDHE suites, all positions of every record index, and seeded multi-fault plans. The sender writes N self-describing records and closes; the receiver drains and keeps reading after the first error; a thinned copy of the list runs against a receiver that has shut down its own write side first (CloseWrite). Also records sent by the independent reference endpoint with 3 or 15 blocks of padding beyond the minimum (legal), every byte position flipped, plus an unharmed control. A thinned copy of the flips runs against a receiver whose other task is inside a Write stuck in a stalled transport (the alert has to wait for that Write, it must not be left out). distinct = distinct (suite, direction, sizes, fault plan); non-trivial = every planned fault hit a record"
}
func (c05) Components() (real, stub []string) {
	return []string{"tlcp.Conn client+server (instrumented): record protection, error latching, alerts"},
		[]string{"transport with record-aware man in the middle (simnet.RecordMITM)", "randomness, scheduler"}
}
func (c05) Assumptions() []string {
	return []string{"one Write of at most 1024 bytes produces exactly one record (checked by the harness against the wire)", "a cut exactly on a record boundary may be reported as io.EOF (C12 states that rule); every other damage must give an error other than io.EOF", "package ref opens the alert the receiver sends back (validated by C04)"}
}

var (
	c05Once  [2]sync.Once
	c05Lists [2][]c05Params
)

func recWireLen(suite uint16, n int) int {
	if IsCBC(suite) {
		body := n + 32 + 1
		body = (body + 15) / 16 * 16
		return 5 + 16 + body
	}
	return 5 + 8 + n + 16
}

func c05List(tier string) []c05Params {
	ti := 0
	if tier == "thorough" {
		ti = 1
	}
	c05Once[ti].Do(func() {
		var out []c05Params
		suites := []uint16{ECC_GCM, ECC_CBC}
		lens := []int{64}
		if ti == 1 {
			suites = AllSuites
			lens = []int{64, 1, 1000}
		}
		injects := [][]byte{}
		for _, t := range []byte{20, 21, 22, 23, 24} {
			injects = append(injects, append([]byte{t, 1, 1, 0, 4}, 1, 2, 3, 4))                            // plaintext-looking record
			injects = append(injects, append([]byte{t, 1, 1, 0, 40}, bytes.Repeat([]byte{0xa5}, 40)...)) // garbage "ciphertext"
		}
		injects = append(injects, []byte{21, 1, 1, 0, 2, 1, 0}) // plaintext close_notify
		injects = append(injects, []byte{23, 1, 1, 0, 0})       // empty application record
		for _, suite := range suites {
			for dir := 0; dir < 2; dir++ {
				for _, L := range lens {
					n := 3
					add := func(fs ...simnet.RFault) {
						for i := range fs {
							fs[i].Dir, fs[i].Type = dir, ref.RecAppData
						}
						out = append(out, c05Params{Suite: suite, Dir: dir, N: n, Len: L, Faults: fs})
					}
					wl := recWireLen(suite, L)
					ks := []int{1}
					if ti == 1 && L == 64 {
						ks = []int{0, 1, 2}
					}
					for _, k := range ks {
						for off := 0; off < wl; off++ {
							if L == 1000 && off%7 != 0 && off > 40 && off < wl-60 {
								continue
							}
							for _, m := range []byte{0x01, 0x80, 0xff} {
								add(simnet.RFault{N: k, Kind: simnet.RFlip, Off: off, Mask: m})
							}
						}
					}
					for k := 0; k < n; k++ {
						add(simnet.RFault{N: k, Kind: simnet.RDrop})
						add(simnet.RFault{N: k, Kind: simnet.RDup})
						add(simnet.RFault{N: k, Kind: simnet.RSwap})
						add(simnet.RFault{N: k, Kind: simnet.RCutAt})
						for _, inj := range injects {
							add(simnet.RFault{N: k, Kind: simnet.RInject, Data: inj})
						}
					}
					if L == 64 {
						for keep := 1; keep < wl; keep++ {
							add(simnet.RFault{N: 1, Kind: simnet.RTrunc, Keep: keep})
						}
					}
				}
			}
		}
		// the same faults (flips and truncations thinned out) against a receiver that has half-closed
		for _, q := range append([]c05Params(nil), out...) {
			f := q.Faults[0]
			if q.Len != 64 || (f.Kind == simnet.RFlip && (f.Off%8 != 0 || f.Mask != 0x01)) || (f.Kind == simnet.RTrunc && f.Keep%8 != 0) {
				continue
			}
			q.HalfClosed = true
			out = append(out, q)
		}
		// flips (thinned out) against a receiver that is also writing into a stalled transport
		for _, q := range append([]c05Params(nil), out...) {
			f := q.Faults[0]
			if q.Len != 64 || q.HalfClosed || f.Kind != simnet.RFlip || f.Off%5 != 0 || f.Mask != 0x01 {
				continue
			}
			q.Duplex = true
			out = append(out, q)
		}
		// long padding: every position of a record sent by the reference endpoint with extra padding blocks
		for _, suite := range suites {
			if !IsCBC(suite) {
				continue
			}
			for dir := 0; dir < 2; dir++ {
				for _, pb := range []int{3, 15} {
					if pb == 15 && ti == 0 && dir == 1 {
						continue
					}
					L := 32
					wl := recWireLen(suite, L) + 16*pb
					add := func(f simnet.RFault) {
						f.Dir, f.Type = dir, ref.RecAppData
						out = append(out, c05Params{Suite: suite, Dir: dir, N: 3, Len: L, Faults: []simnet.RFault{f}, PadBlocks: pb})
					}
					add(simnet.RFault{N: 99, Kind: simnet.RDrop}) // control: nothing fires, everything must arrive
					for off := 0; off < wl; off++ {
						masks := []byte{0x01}
						if ti == 1 {
							masks = []byte{0x01, 0x80, 0xff}
						}
						for _, m := range masks {
							add(simnet.RFault{N: 1, Kind: simnet.RFlip, Off: off, Mask: m})
						}
					}
				}
			}
		}
		if ti == 1 {
			// multi-fault plans are drawn in Run from the case seed (Faults == nil)
			for i := 0; i < 6000; i++ {
				out = append(out, c05Params{Suite: AllSuites[i%4], Dir: i / 4 % 2, N: 4, Len: 48})
			}
		}
		c05Lists[ti] = out
	})
	return c05Lists[ti]
}

func (c05) Count(tier string) int { return len(c05List(tier)) }
func (c05) Make(tier string, seed uint64, i int) *Case {
	p := c05List(tier)[i]
	return &Case{Prop: "C05", Index: i, Seed: CaseSeed(seed, "C05", i), P: mustJSON(p)}
}

func c05Record(i, n int) []byte {
	b := make([]byte, n)
	for j := range b {
		b[j] = byte(i*37 + j*11 + 1)
	}
	return b
}

// firstDamaged returns the index of the first application record that must
// not be delivered, whether records up to and including it are delivered
// (duplication) and whether a clean EOF is acceptable as the "error".
func c05Expect(fs []simnet.RFault, n int) (prefix int, eofOK bool) {
	prefix = n + 1
	for _, f := range fs {
		p := f.N
		e := false
		switch f.Kind {
		case simnet.RDup:
			p = f.N + 1 // the record itself arrives intact, its copy does not
		case simnet.RCutAt:
			e = true
		case simnet.RInject:
			if len(f.Data) == 7 && f.Data[0] == 21 {
				// an injected plaintext alert is still just a damaged record: must be rejected
			}
		}
		if p < prefix {
			prefix, eofOK = p, e
		}
	}
	return
}

func (c05) Run(c *Case, src *vs.Src) *Result {
	r := &Result{}
	p := &c05Params{}
	if err := json.Unmarshal(c.P, p); err != nil {
		r.Infra = "bad params: " + err.Error()
		return r
	}
	if p.Faults == nil {
		// seeded multi-fault plan
		nf := 2 + src.Intn(2)
		wl := recWireLen(p.Suite, p.Len)
		for i := 0; i < nf; i++ {
			f := simnet.RFault{Dir: p.Dir, Type: ref.RecAppData, N: src.Intn(p.N)}
			switch src.Intn(6) {
			case 0:
				f.Kind = simnet.RDrop
			case 1:
				f.Kind = simnet.RDup
			case 2:
				f.Kind = simnet.RSwap
			case 3:
				f.Kind, f.Keep = simnet.RTrunc, 1+src.Intn(wl-1)
			default:
				f.Kind, f.Off, f.Mask = simnet.RFlip, src.Intn(wl), []byte{1, 0x80, 0xff}[src.Intn(3)]
			}
			p.Faults = append(p.Faults, f)
		}
		// two faults on one record interact in ways the simple expectation below does not model
		seen := map[int]bool{}
		var fs []simnet.RFault
		for _, f := range p.Faults {
			if !seen[f.N] && !seen[f.N+1] && !seen[f.N-1] {
				fs = append(fs, f)
				seen[f.N] = true
			}
		}
		p.Faults = fs
		p.Seg = src.Intn(3)
	}
	r.Sample = p
	w := NewWorld(c.Seed, src)
	w.K.MaxElapsed = 300 * time.Second
	env := NewEnv(w)
	cc := &EPConf{Suites: []uint16{p.Suite}, ServerName: "server.test"}
	sc := &EPConf{Suites: []uint16{p.Suite}, Certs: []string{"server_sig", "server_enc"}}
	if IsECDHE(p.Suite) {
		cc.Certs = []string{"client_sig", "client_enc"}
		sc.WrapKeys = true
	}
	mitm := simnet.NewRecordMITM(p.Dir, p.Faults)
	var pair *Pair
	var sender, receiver EP
	var half *Half
	if p.PadBlocks > 0 {
		// direction 0: the library is the server and reads what the scripted client sends
		if p.Dir == 0 {
			sc.ClientCAs = []string{"ca1"}
			half = NewHalf(TLCP, env, sc, false, "real")
			half.Peer.OwnEncKey = sm2Key("client_enc")
		} else {
			half = NewHalf(TLCP, env, cc, true, "real")
			half.Peer.OwnEncKey = sm2Key("server_enc")
		}
		half.Pipe.SetFilter(p.Dir, mitm)
		receiver = half.Real
	} else {
		pair = NewPair(TLCP, env, cc, sc, "c", "s", "client:1", "server:443")
		pair.Pipe.C.Seg, pair.Pipe.S.Seg = p.Seg, p.Seg
		pair.Pipe.SetFilter(p.Dir, mitm)
		sender, receiver = pair.C, pair.S
		if p.Dir == 1 {
			sender, receiver = pair.S, pair.C
		}
	}
	var sHS, rHS error
	rUp, rHalf := false, false
	var rcvEnd *simnet.Conn // the receiving endpoint's end of the transport
	if pair != nil {
		rcvEnd = pair.Pipe.S
		if p.Dir == 1 {
			rcvEnd = pair.Pipe.C
		}
	}
	var got []byte
	var firstErr error
	var later []string
	reads := 0
	w.Go("sender", func() {
		if half != nil {
			o := &peer.Opts{Suites: []uint16{p.Suite}}
			var ops []string
			if p.Dir == 1 {
				o.Certs, o.SigKey, o.EncKey, o.CAs = ders("server_sig", "server_enc"), sm2Key("server_sig"), sm2Key("server_enc"), subjects("ca1")
				ops = []string{"rCH", "SH", "CERT", "SKX"}
				if IsECDHE(p.Suite) {
					ops = append(ops, "CR")
				}
				ops = append(ops, "SHD", "rFLIGHT", "CCS", "FIN")
			} else {
				o.SNI = "server.test"
				ops = []string{"CH", "rFLIGHT"}
				if IsECDHE(p.Suite) {
					o.Certs, o.SigKey = ders("client_sig", "client_enc"), sm2Key("client_sig")
					ops = append(ops, "CERT", "CKE", "CV")
				} else {
					ops = append(ops, "CKE")
				}
				ops = append(ops, "CCS", "FIN", "rFLIGHT")
			}
			if out := half.Peer.Run(o, ops); out.Err != nil || !out.Completed {
				sHS = fmt.Errorf("scripted handshake: completed=%v at %s: %v", out.Completed, out.StoppedAt, out.Err)
				half.ClosePeerSide()
				return
			}
			half.Peer.SetWritePad(p.PadBlocks)
			for i := 0; i < p.N; i++ {
				if err := half.Peer.SendApp(c05Record(i, p.Len)); err != nil {
					break
				}
			}
			half.Peer.SetWritePad(0)
			half.Peer.SendAlert(1, 0)
			half.ClosePeerSide()
			return
		}
		if sHS = sender.Handshake(); sHS != nil {
			sender.Close()
			return
		}
		if p.HalfClosed {
			// (the receiver half-closes first: a sender that has already closed the transport would turn the
			// receiver's close_notify into a transport error, which is not what is looked at here)
			vs.Block(func() bool { return rHalf || rHS != nil }, vs.Now().Add(30*time.Second))
		}
		for i := 0; i < p.N; i++ {
			if _, err := sender.Write(c05Record(i, p.Len)); err != nil {
				break
			}
		}
		if p.Duplex {
			// the other direction was held back; now it flows: read whatever the receiver wrote until it ends
			vs.Sleep(time.Second)
			rcvEnd.SetLimit(0)
			buf := make([]byte, 4096)
			for i := 0; i < 100000; i++ {
				sender.SetReadDeadline(vs.Now().Add(5 * time.Second))
				if _, err := sender.Read(buf); err != nil {
					break
				}
			}
		}
		sender.Close()
	})
	if p.Duplex {
		w.Go("receiver-writer", func() {
			vs.Block(func() bool { return rUp }, time.Time{})
			if rHS == nil {
				receiver.Write(make([]byte, 20000))
			}
		})
	}
	w.Go("receiver", func() {
		rHS = receiver.Handshake()
		if p.Duplex && rHS == nil {
			rcvEnd.SetLimit(3000) // the receiver's own writes pile up in the transport
		}
		rUp = true
		if rHS != nil {
			receiver.Close()
			return
		}
		if p.HalfClosed {
			err := receiver.CloseWrite()
			rHalf = true
			if err != nil {
				rHS = fmt.Errorf("CloseWrite: %w", err)
				return
			}
		}
		buf := make([]byte, 4096)
		for {
			n, err := receiver.Read(buf)
			reads++
			got = append(got, buf[:n]...)
			if err != nil {
				firstErr = err
				break
			}
			if reads > 1000 {
				break
			}
		}
		for i := 0; i < 3; i++ {
			n, err := receiver.Read(buf)
			later = append(later, fmt.Sprintf("n=%d err=%v", n, err))
			if n != 0 || err == nil {
				got = append(got, buf[:n]...)
			}
		}
		receiver.Close()
	})
	reason, unf := w.Run()
	sigp := fmt.Sprintf("C05 %s dir%d", SuiteName(p.Suite), p.Dir)
	if p.HalfClosed {
		sigp += " half-closed"
	}
	if p.PadBlocks > 0 {
		sigp += " long-padding"
	}
	if p.Duplex {
		sigp += " duplex"
	}
	w.Finish(r, sigp)
	pj, _ := json.Marshal(p)
	r.Key = hashKey(string(pj))
	kind := "multi"
	if len(p.Faults) == 1 {
		kind = p.Faults[0].Kind
	}
	if reason != vs.Done {
		r.Violate("not-ended", sigp+" not-ended "+reason+" "+kind, "run ended with %q, unfinished %v", reason, unf)
		return r
	}
	if sHS != nil || rHS != nil {
		r.Violate("handshake-failed", sigp+" handshake-failed", "clean handshake failed: sender %v receiver %v", sHS, rHS)
		return r
	}
	r.Trivial = !mitm.AllFired()
	for i, f := range mitm.Plan {
		if mitm.Fired[i] {
			r.Stat("fired_"+f.Kind, 1)
		}
	}
	// fired faults decide the expectation (a fault on a record that was never sent cannot matter)
	var fired []simnet.RFault
	for i, f := range mitm.Plan {
		if mitm.Fired[i] {
			fired = append(fired, f)
		}
	}
	prefix, eofOK := c05Expect(fired, p.N)
	var want []byte
	for i := 0; i < p.N && i < prefix; i++ {
		want = append(want, c05Record(i, p.Len)...)
	}
	if !bytes.Equal(got, want) {
		r.Violate("delivered", sigp+" delivered-not-prefix "+kind, "receiver got %d bytes, expected exactly the %d bytes of the %d records before the first damaged one; faults %+v; first error %v", len(got), len(want), prefix, fired, firstErr)
	}
	if len(fired) > 0 {
		if firstErr == nil {
			r.Violate("no-error", sigp+" no-error "+kind, "no error after damage %+v", fired)
		} else if firstErr == io.EOF && !eofOK {
			r.Violate("clean-eof", sigp+" clean-eof "+kind, "damage %+v was reported as a clean io.EOF", fired)
		}
	} else if firstErr != io.EOF {
		r.Violate("control", sigp+" control-not-eof", "no fault fired but the stream ended with %v", firstErr)
	}
	for _, l := range later {
		if len(l) < 4 || l[:4] != "n=0 " || l == "n=0 err=<nil>" {
			r.Violate("not-latched", sigp+" error-not-latched "+kind, "reads after the first error (%v) returned %v", firstErr, later)
			break
		}
	}
	// CBC: ciphertext damage answered by bad_record_mac
	if IsCBC(p.Suite) && !p.HalfClosed && pair != nil && len(fired) == 1 && fired[0].Kind == simnet.RFlip && fired[0].Off%recWireLen(p.Suite, p.Len) >= 5 {
		sec := &ref.Secrets{KeyFor: keyResolver("server_sig", "server_enc", "client_sig", "client_enc"), Eph: env.KeyOps.Eph, Sessions: map[string][]byte{}}
		v := ref.Observe(false, pair.WireUnits(true), sec)
		rev := 1 - p.Dir
		al := v.Alerts[rev]
		if len(al) == 0 || len(al[0]) != 2 || al[0][0] != 2 || al[0][1] != 20 {
			r.Violate("cbc-alert", sigp+" cbc-alert-not-bad-record-mac", "ciphertext damage at offset %d answered with alerts %x (want 0214); monitor errors %v", fired[0].Off, al, v.Errors)
		} else {
			r.Stat("probe_cbc_bad_record_mac", 1)
		}
	}
	r.Outcome = fmt.Sprintf("%s prefix=%d err=%v", kind, prefix, clipSig(errStr(firstErr)))
	return r
}
