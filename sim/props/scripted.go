package props

import (
	"time"

	"gitee.com/Trisia/gotlcp/dtlcp"
	"gitee.com/Trisia/gotlcp/tlcp"
	"gitee.com/Trisia/gotlcp/vs"
	"github.com/emmansun/gmsm/sm2"

	"verifsim/fix"
	"verifsim/peer"
	"verifsim/simnet"
)

// Half is one real endpoint talking to one scripted peer.
type Half struct {
	Stack string
	Real  EP
	TReal *tlcp.Conn
	DReal *dtlcp.Conn
	Peer  *peer.Peer
	Pipe  *simnet.Pipe
	Net   *simnet.Net
	RP    *simnet.PacketConn // real endpoint's socket
	PP    *simnet.PacketConn // scripted peer's socket
}

const peerReadTimeout = 400 * time.Millisecond

// NewHalf builds a real endpoint (client if realIsClient) and a scripted peer of the other role.
func NewHalf(stack string, env *Env, realConf *EPConf, realIsClient bool, name string) *Half {
	h := &Half{Stack: stack}
	ca, sa := simnet.Addr("client:1"), simnet.Addr("server:443")
	rnd := env.W.Rand("peer/" + name)
	if stack == TLCP {
		h.Pipe = simnet.NewPipe(ca, sa)
		if realIsClient {
			h.TReal = tlcp.Client(h.Pipe.C, realConf.BuildTLCP(env, name))
			h.Peer = peer.New(false, false, peer.StreamT{C: h.Pipe.S, Timeout: peerReadTimeout, Now: vs.Now}, rnd)
		} else {
			h.TReal = tlcp.Server(h.Pipe.S, realConf.BuildTLCP(env, name))
			h.Peer = peer.New(false, true, peer.StreamT{C: h.Pipe.C, Timeout: peerReadTimeout, Now: vs.Now}, rnd)
		}
		h.Real = tEP{h.TReal}
		return h
	}
	h.Net = simnet.NewNet()
	cp := h.Net.Listen(ca, simnet.DirC2S)
	sp := h.Net.Listen(sa, simnet.DirS2C)
	if realIsClient {
		h.RP, h.PP = cp, sp
		h.DReal = dtlcp.Client(cp, sa, realConf.BuildDTLCP(env, name))
		h.Peer = peer.New(true, false, peer.DgramT{P: sp, Remote: ca, Timeout: peerReadTimeout, Now: vs.Now}, rnd)
	} else {
		h.RP, h.PP = sp, cp
		h.DReal = dtlcp.Server(sp, ca, realConf.BuildDTLCP(env, name))
		h.Peer = peer.New(true, true, peer.DgramT{P: cp, Remote: sa, Timeout: peerReadTimeout, Now: vs.Now}, rnd)
	}
	h.Real = dEP{h.DReal}
	return h
}

// ClosePeerSide ends the scripted peer's transport (the real endpoint sees EOF on the stream stack).
func (h *Half) ClosePeerSide() {
	if h.Pipe != nil {
		if h.Peer.IsClient {
			h.Pipe.C.Close()
		} else {
			h.Pipe.S.Close()
		}
		return
	}
	h.PP.Close()
}

func (h *Half) CloseRealSide() {
	if h.Pipe != nil {
		if h.Peer.IsClient {
			h.Pipe.S.Close()
		} else {
			h.Pipe.C.Close()
		}
		return
	}
	h.RP.Close()
}

func ders(names ...string) [][]byte {
	var out [][]byte
	for _, n := range names {
		out = append(out, fix.DER(n))
	}
	return out
}

func sm2Key(name string) *sm2.PrivateKey {
	k, _ := fix.Key(name).(*sm2.PrivateKey)
	return k
}

func subjects(cas ...string) [][]byte {
	var out [][]byte
	for _, n := range cas {
		out = append(out, fix.Cert(n).RawSubject)
	}
	return out
}
