package props

import (
	"encoding/json"
	"fmt"
	"sync"
	"time"

	"gitee.com/Trisia/gotlcp/dtlcp"
	"gitee.com/Trisia/gotlcp/tlcp"
	"gitee.com/Trisia/gotlcp/vs"

	"verifsim/peer"
)

// C07 — a server completes only when its client-authentication policy is satisfied.
type c07 struct{}

func init() { Register(c07{}) }

type c07Params struct {
	Stack     string `json:"stack"`
	Suite     uint16 `json:"suite"`
	Policy    int    `json:"policy"`
	Behaviour string `json:"behaviour"`
	// resumed cases: the session is created under Policy1 (with the same behaviour) and offered under Policy
	Resumed bool `json:"resumed"`
	Policy1 int  `json:"policy1"`
	Seg     int  `json:"seg"`
	// Changed (resumed cases): what else differs in the configuration the session is offered to - "cas": its
	// client roots are another CA, "time": its clock reads 2046, after the end of every client certificate
	Changed string `json:"changed,omitempty"`
	// SrvSkip: the server's configuration has InsecureSkipVerify set (a client-side option; it must not switch
	// off the verification of client certificates)
	SrvSkip bool `json:"srv_skip,omitempty"`
	// NoCAs: the server's ClientCAs field is left unset: nothing the clients of this PKI present verifies
	NoCAs bool `json:"no_cas,omitempty"`
}

// c07Recorded: how a certificate behaviour looks to a configuration that differs as Changed says.
func c07Seen(b, changed string) string {
	switch b {
	case "trusted", "wrong-eku", "late", "recent", "expired", "enc-untrusted", "enc-expired":
		switch changed {
		case "cas":
			return "untrusted"
		case "time":
			return "expired"
		}
	}
	return b
}

var c07Behaviours = []string{"none", "trusted", "untrusted", "expired", "wrong-eku", "cv-missing", "cv-wrong-key", "cv-other-transcript", "enc-cert-first-cv-missing", "recent", "late", "enc-untrusted", "enc-expired",
	// a signing certificate that does not verify next to a good encryption certificate
	"sig-untrusted-enc-ok", "sig-expired-enc-ok", "sig-wrongeku-enc-ok",
	// the Certificate message is left out altogether (not sent empty) although one was requested
	"cert-msg-omitted"}

// c07Canon: a bad signing certificate is judged the same whatever encryption certificate accompanies it.
func c07Canon(b string) string {
	switch b {
	case "sig-untrusted-enc-ok":
		return "untrusted"
	case "sig-expired-enc-ok":
		return "expired"
	case "sig-wrongeku-enc-ok":
		return "wrong-eku"
	}
	return b
}

func (c07) ID() string    { return "C07" }
func (c07) Level() string { return "fault_enumeration" }
func (c07) Rule() string {
	return "enumerates six ClientAuth policies x client behaviours (no certificate, trusted, untrusted CA, expired, expired only at the configured time (not on the wall clock), in date only at the configured time, wrong extended key usage, encryption certificate first without CertificateVerify, certificate with CertificateVerify missing / made with another key / over another transcript) x ECC and ECDHE suites (GCM and CBC) x both stacks for full handshakes, and (policy of the original handshake) x (policy now in force) x behaviour for resumed handshakes over configurations sharing the session cache (also: same policy but other client roots, or a clock past the certificates' end); the verifying policies also with InsecureSkipVerify set on the server's configuration and with ClientCAs left unset; behaviours also include a good signing certificate with an untrusted / expired encryption certificate (part of the identity under ECDHE); after every refused full handshake the client offers that handshake's session id with the master secret it computed (must not be resumed); thorough repeats under many seeds. A scripted client on the independent reference implementation plays the behaviour against a real server. The expected outcome comes from a model of the ClientAuthType documentation plus the standard's rule that ECDHE needs the client certificates. Behaviours also include a signing certificate that does not verify (untrusted, expired, wrong extended key usage) next to a good encryption certificate. Behaviour cert-msg-omitted: the requested Certificate message is left out altogether (not sent empty). distinct = distinct (stack, suite, policies, behaviour, resumed); non-trivial = the server reached the point where the behaviour matters"
}
func (c07) Components() (real, stub []string) {
	return []string{"tlcp/dtlcp server (instrumented): certificate request, processCertsFromClient, CertificateVerify check, resumption, session cache"},
		[]string{"client: scripted peer on package ref", "transport, clock, randomness, scheduler"}
}
func (c07) Assumptions() []string {
	return []string{"policy model taken from the ClientAuthType documentation: policies 3-5 verify chain, validity and (except 5) extended key usage when a certificate is given; 2, 4, 5 require a certificate; 1 and 2 (and 0 under ECDHE) take any certificate; a certificate always needs a valid CertificateVerify", "honest controls validate the scripted client"}
}

var (
	c07Once sync.Once
	c07List []c07Params
)

func c07Cases() []c07Params {
	c07Once.Do(func() {
		for _, st := range []string{TLCP, DTLCP} {
			for _, su := range AllSuites {
				for pol := 0; pol < 6; pol++ {
					for _, b := range c07Behaviours {
						c07List = append(c07List, c07Params{Stack: st, Suite: su, Policy: pol, Behaviour: b})
					}
				}
			}
			// the verifying policies once more with InsecureSkipVerify set on the server's configuration
			for _, su := range []uint16{ECC_GCM, ECDHE_CBC} {
				for pol := 3; pol < 6; pol++ {
					for _, b := range []string{"trusted", "untrusted", "expired", "wrong-eku", "recent"} {
						c07List = append(c07List, c07Params{Stack: st, Suite: su, Policy: pol, Behaviour: b, SrvSkip: true})
					}
				}
			}
			// the verifying policies on a configuration that names no client roots at all
			for _, su := range []uint16{ECC_GCM, ECDHE_CBC} {
				for pol := 3; pol < 6; pol++ {
					for _, b := range []string{"none", "trusted", "late"} {
						c07List = append(c07List, c07Params{Stack: st, Suite: su, Policy: pol, Behaviour: b, NoCAs: true})
					}
				}
			}
			// resumed under the same policy by a configuration with other client roots / a later clock
			for _, su := range []uint16{ECC_GCM, ECDHE_CBC} {
				for pol := 1; pol < 6; pol++ {
					for _, ch := range []string{"cas", "time"} {
						for _, b := range []string{"trusted", "wrong-eku", "late"} {
							if c07Model(pol, b, su) {
								c07List = append(c07List, c07Params{Stack: st, Suite: su, Policy: pol, Policy1: pol, Behaviour: b, Resumed: true, Changed: ch})
							}
						}
					}
				}
			}
			// resumed: the session is made under policy1 by behaviour b (must be acceptable there), offered under policy
			for _, su := range []uint16{ECC_GCM, ECDHE_CBC} {
				for p1 := 0; p1 < 6; p1++ {
					for p2 := 0; p2 < 6; p2++ {
						for _, b := range []string{"none", "trusted", "untrusted", "expired", "wrong-eku", "recent", "late", "enc-untrusted", "enc-expired"} {
							if c07Model(p1, b, su) {
								c07List = append(c07List, c07Params{Stack: st, Suite: su, Policy: p2, Policy1: p1, Behaviour: b, Resumed: true})
							}
						}
					}
				}
			}
		}
	})
	return c07List
}

func (c07) Count(tier string) int {
	n := len(c07Cases())
	if tier == "thorough" {
		return n * 60
	}
	return n
}
func (c07) Make(tier string, seed uint64, i int) *Case {
	l := c07Cases()
	p := l[i%len(l)]
	p.Seg = (i / len(l)) % 3
	return &Case{Prop: "C07", Index: i, Seed: CaseSeed(seed, "C07", i), P: mustJSON(p)}
}

// c07Model: does the policy allow a server to complete with this client behaviour?
func c07Model(policy int, behaviour string, suite uint16) bool {
	behaviour = c07Canon(behaviour)
	ecdhe := IsECDHE(suite)
	requested := policy >= 1 || ecdhe
	if !requested {
		return true // nothing is asked of the client
	}
	required := policy == 2 || policy == 4 || policy == 5 || ecdhe
	if behaviour == "none" {
		return !required
	}
	switch behaviour {
	case "cv-missing", "cv-wrong-key", "cv-other-transcript", "enc-cert-first-cv-missing":
		return false // possession of the certificate's key was not proved
	case "cert-msg-omitted":
		return false // a requested Certificate message is answered, if only with an empty list
	}
	if policy >= 3 {
		switch behaviour {
		case "untrusted", "expired", "recent":
			// "recent": in date until mid-2029, that is expired at the configured time (2030) but not on the
			// simulation's wall clock (2024) nor on any real clock before then
			return false
		case "wrong-eku":
			return policy == 5
		case "enc-untrusted", "enc-expired":
			// a good signing certificate with an encryption certificate that does not verify: the encryption
			// certificate is part of the client's identity where it is used, that is with the ECDHE suites
			return !ecdhe
		}
	}
	return true
}

func c07Cert(b string) string {
	switch c07Canon(b) {
	case "untrusted":
		return "client_untrusted"
	case "expired":
		return "client_expired"
	case "wrong-eku":
		return "client_wrongeku"
	case "recent":
		return "client_recent"
	case "late":
		// in date from mid-2029: valid at the configured time only, not yet on the wall clock
		return "client_late"
	case "none", "cert-msg-omitted":
		return ""
	}
	return "client"
}

type c07Conn struct {
	SrvErr   error
	SrvCS    CS
	Resumed  bool
	PeerOut  *peer.Outcome
	Sent     []string
	Received []string
	Reason   string
	Unf      []string
	Master   []byte
	SID      []byte
	GotApp   bool
}

func (c07) Run(c *Case, src *vs.Src) *Result {
	r := &Result{}
	p := &c07Params{}
	if err := json.Unmarshal(c.P, p); err != nil {
		r.Infra = "bad params: " + err.Error()
		return r
	}
	r.Sample = p
	sigp := fmt.Sprintf("C07 %s %s pol=%d %s", p.Stack, SuiteName(p.Suite), p.Policy, p.Behaviour)
	if p.SrvSkip {
		sigp += " srv-skip-verify"
	}
	if p.NoCAs {
		sigp += " no-client-cas"
	}
	if p.Changed != "" {
		sigp += " changed=" + p.Changed
	}
	if p.Resumed {
		sigp += fmt.Sprintf(" resumed-from-pol=%d", p.Policy1)
	}
	var tcache tlcp.SessionCache = tlcp.NewLRUSessionCache(8)
	var dcache dtlcp.SessionCache = dtlcp.NewLRUSessionCache(8)
	base := c07Cert(p.Behaviour)
	changed := ""
	run := func(seedOff uint64, policy int, offer []byte, master []byte) *c07Conn {
		w := NewWorld(c.Seed+seedOff, src)
		w.K.MaxElapsed = 30 * time.Second
		env := NewEnv(w)
		env.TCaches["s"], env.DCaches["s"] = tcache, dcache
		sc := &EPConf{Suites: []uint16{p.Suite}, Certs: []string{"server_sig", "server_enc"}, Auth: policy, ClientCAs: []string{"ca1"}, Cache: "s", SkipVerify: p.SrvSkip}
		if p.NoCAs {
			sc.ClientCAs = []string{"none"}
		}
		switch changed {
		case "cas":
			sc.ClientCAs = []string{"ca2"}
		case "time":
			sc.TimeYear = 2046
		}
		h := NewHalf(p.Stack, env, sc, false, "server")
		if h.Pipe != nil {
			h.Pipe.S.Seg = p.Seg
		}
		o := &peer.Opts{Suites: []uint16{p.Suite}, SNI: "server.test", SessionID: offer, Master: master}
		if base != "" {
			o.Certs = ders(base+"_sig", base+"_enc")
			o.SigKey = sm2Key(base + "_sig")
			h.Peer.OwnEncKey = sm2Key(base + "_enc")
		}
		switch p.Behaviour {
		case "sig-untrusted-enc-ok", "sig-expired-enc-ok", "sig-wrongeku-enc-ok":
			o.Certs = ders(base+"_sig", "client_enc")
			h.Peer.OwnEncKey = sm2Key("client_enc")
		case "enc-untrusted":
			o.Certs = ders("client_sig", "client_untrusted_enc")
			h.Peer.OwnEncKey = sm2Key("client_untrusted_enc")
		case "enc-expired":
			o.Certs = ders("client_sig", "client_expired_enc")
			h.Peer.OwnEncKey = sm2Key("client_expired_enc")
		case "enc-cert-first-cv-missing":
			// somebody else's (public) encryption certificate in the authentication position, no proof of possession
			o.Certs = ders("client2_enc", "client_enc")
		case "cv-wrong-key":
			o.CVKey = sm2Key("client2_sig")
		case "cv-other-transcript":
			o.CV = "other-transcript"
		}
		co := &c07Conn{}
		w.Go("server", func() {
			co.SrvErr = h.Real.Handshake()
			if co.SrvErr == nil {
				h.Real.SetReadDeadline(vs.Now().Add(2 * time.Second))
				buf := make([]byte, 128)
				n, _ := h.Real.Read(buf)
				co.GotApp = n > 0
				h.Real.Write([]byte("server data"))
			}
			h.Real.Close()
		})
		w.Go("client", func() {
			pr := h.Peer
			out := pr.Run(o, []string{"CH", "rFLIGHT"})
			if out.Err == nil {
				var rest []string
				if pr.Resuming {
					rest = []string{"CCS", "FIN", "APP", "rAPP"}
				} else {
					requested := false
					for _, k := range pr.Received {
						requested = requested || k == "CertificateRequest"
					}
					if requested && p.Behaviour != "cert-msg-omitted" {
						rest = append(rest, "CERT")
					}
					rest = append(rest, "CKE")
					if requested && base != "" && p.Behaviour != "cv-missing" && p.Behaviour != "enc-cert-first-cv-missing" {
						rest = append(rest, "CV")
					}
					rest = append(rest, "CCS", "FIN", "rFLIGHT", "APP", "rAPP")
				}
				out2 := pr.Run(o, rest)
				out2.GotFinished = out2.GotFinished || out.GotFinished
				out = out2
			}
			co.PeerOut, co.Sent, co.Received = out, pr.Sent, pr.Received
			co.Resumed, co.Master = pr.Resuming, pr.Master
			if pr.SH != nil {
				co.SID = pr.SH.SessionID
			}
			h.ClosePeerSide()
		})
		co.Reason, co.Unf = w.Run()
		co.SrvCS = h.Real.CS()
		w.Finish(r, sigp)
		return co
	}
	r.Key = hashKey(p.Stack, p.Suite, p.Policy, p.Policy1, p.Behaviour, p.Resumed, p.Changed, p.SrvSkip, p.NoCAs)
	var co *c07Conn
	if p.Resumed {
		first := run(0, p.Policy1, nil, nil)
		if first.SrvErr != nil || first.Reason != vs.Done {
			r.Violate("setup", sigp+" setup-failed", "the original handshake under policy %d failed: %v (%s); client sent %v", p.Policy1, first.SrvErr, first.Reason, first.Sent)
			return r
		}
		changed = p.Changed
		co = run(1, p.Policy, first.SID, first.Master)
	} else {
		co = run(0, p.Policy, nil, nil)
	}
	if co.Reason != vs.Done && !(co.Reason == vs.TimeUp && p.Stack == DTLCP) {
		r.Violate("not-ended", sigp+" not-ended "+co.Reason, "run ended with %q, unfinished %v; server err=%v; client sent %v received %v", co.Reason, co.Unf, co.SrvErr, co.Sent, co.Received)
		return r
	}
	completed := co.SrvErr == nil && co.SrvCS.Done
	// what the policy is judged against: on a resumed handshake, the certificates recorded with the
	// session (none if none were requested when it was made); on a full handshake, the behaviour itself
	recorded := p.Behaviour
	if p.Resumed && p.Policy1 == 0 && !IsECDHE(p.Suite) {
		recorded = "none"
	}
	seen := c07Seen(p.Behaviour, p.Changed)
	if p.NoCAs {
		seen = c07Seen(p.Behaviour, "cas")
	}
	if recorded != "none" {
		recorded = c07Seen(recorded, p.Changed)
	}
	allowedFull := c07Model(p.Policy, seen, p.Suite)
	r.Outcome = fmt.Sprintf("completed=%v resumed=%v", completed, co.SrvCS.Resumed)
	switch {
	case completed && co.SrvCS.Resumed && !c07Model(p.Policy, recorded, p.Suite):
		r.Violate("policy-bypassed", sigp+" resumed", "the server resumed the session although policy %d does not allow what was recorded with it (%q); client sent %v", p.Policy, recorded, co.Sent)
	case completed && !co.SrvCS.Resumed && !allowedFull:
		r.Violate("policy-bypassed", sigp+" completed", "the server completed a full handshake although policy %d does not allow behaviour %q; client sent %v", p.Policy, p.Behaviour, co.Sent)
	case !completed && allowedFull:
		r.Violate("policy-overstrict", sigp+" refused", "the server refused a client its policy allows: %v (run %s); client sent %v received %v, script stopped at %q: %v", co.SrvErr, co.Reason, co.Sent, co.Received, co.PeerOut.StoppedAt, co.PeerOut.Err)
	}
	if completed {
		// what the server reports must be backed by what was checked
		if len(co.SrvCS.Peer) > 0 {
			switch p.Behaviour {
			case "cv-missing", "cv-wrong-key", "cv-other-transcript", "none", "enc-cert-first-cv-missing", "cert-msg-omitted":
				r.Violate("peer-certs-unproven", sigp+" peer-certs-without-proof", "server reports %d peer certificates for behaviour %q", len(co.SrvCS.Peer), p.Behaviour)
			}
		}
		if co.SrvCS.Verified > 0 && !((p.Behaviour == "trusted" && seen == "trusted") || (p.Behaviour == "late" && seen == "late") || ((p.Behaviour == "enc-untrusted" || p.Behaviour == "enc-expired") && seen == p.Behaviour) || (c07Canon(p.Behaviour) == "wrong-eku" && (p.Policy == 5 || (p.Resumed && p.Policy1 == 5)))) {
			r.Violate("verified-chains", sigp+" verified-chains-unbacked", "server reports verified chains for behaviour %q", p.Behaviour)
		}
		if !co.GotApp {
			r.Violate("control-data", sigp+" control-data", "server completed but did not receive the client's application data")
		}
		r.Stat("completed", 1)
		if co.SrvCS.Resumed {
			r.Stat("resumed", 1)
		}
	}
	// a handshake that was refused leaves nothing to resume: the client offers the session id it was given,
	// with the master secret it computed (it may have been cached before the refusal)
	if !p.Resumed && !completed && len(co.SID) > 0 && len(co.Master) > 0 {
		again := run(1, p.Policy, co.SID, co.Master)
		if again.SrvErr == nil && again.SrvCS.Done && again.SrvCS.Resumed {
			r.Violate("resumed-after-refusal", sigp+" resumed-after-refusal", "the server refused behaviour %q under policy %d (%v) but then resumed the session of that handshake (id %x): completed with %d peer certificates", p.Behaviour, p.Policy, co.SrvErr, co.SID, len(again.SrvCS.Peer))
		}
		r.Stat("probe_resume_after_refusal", 1)
	}
	return r
}
