package props

import (
	"bytes"
	"context"
	"encoding/json"
	"fmt"
	"io"
	"net"
	"time"

	"gitee.com/Trisia/gotlcp/vs"

	"verifsim/peer"
	"verifsim/ref"
	"verifsim/simnet"
)

// C12 — shutdown, end-of-stream and errors are reported faithfully and stay reported (TLCP).
type c12 struct{}

func init() { Register(c12{}) }

type c12Params struct {
	Mode  string `json:"mode"` // cut | alert | early-app | cancel | api
	Suite uint16 `json:"suite"`
	Dir   int    `json:"dir"` // cut: direction that carries the data (0 client->server)
	// cut
	N     int    `json:"n,omitempty"`     // records written
	Len   int    `json:"len,omitempty"`   // bytes per record
	Close string `json:"close,omitempty"` // what the writer does after writing: close | closewrite | nothing
	CutRec int   `json:"cut_rec,omitempty"` // cut inside / before record CutRec (-1: no cut)
	Inject bool  `json:"inject,omitempty"`  // instead of cutting: a record that fails authentication is inserted before record CutRec
	Keep  int    `json:"keep,omitempty"`  // bytes of that record delivered before the transport ends
	Seg   int    `json:"seg,omitempty"`
	// alert
	Level int  `json:"level,omitempty"`
	Desc  int  `json:"desc,omitempty"`
	Count int  `json:"count,omitempty"`
	Role  string `json:"role,omitempty"` // role of the REAL endpoint (alert, early-app, cancel)
	// early-app / cancel: after how many of its handshake messages the scripted peer deviates / stalls
	Step int `json:"step,omitempty"`
	// early-app: Empty - the early application-data record has no payload
	Empty bool `json:"empty,omitempty"`
	// cancel: Second - another task has started the handshake through Read and is blocked in it when
	// HandshakeContext is called (and then cancelled)
	Second bool `json:"second,omitempty"`
	// cancel: Pre - the context has ended before HandshakeContext is called (server role: its first step is a
	// read); the peer then goes through the whole handshake and sends data
	Pre bool `json:"pre,omitempty"`
	// api
	Seq []string `json:"seq,omitempty"`
}

func (c12) ID() string    { return "C12" }
func (c12) Level() string { return "exploration" }
func (c12) Rule() string {
	return "seeded API histories on the stream stack, families: (cut) a writer sends N records and then closes / half-closes / does nothing while the transport of that direction ends before or inside a drawn record at a drawn byte offset (thorough: every offset of small records), the reader keeps calling Read after the end; (alert) after a clean handshake a scripted peer sends protected alerts of every level and a range of descriptions, single or in runs; (early-app) a scripted peer sends application data - with or without payload - after k handshake messages, up to between its ChangeCipherSpec and Finished; (cancel) HandshakeContext is cancelled while the peer stalls after k handshake messages - in a third of the cases another task had started the handshake through Read and is blocked in it; (hs-timeout) the connection deadline expires during the handshake because the peer is slow, is cleared, and the peer's messages arrive late; (close-inflight) Close while another task's Write is blocked in a full transport and the peer's data waits in the buffer; (api) sequences of Close / CloseWrite / Write / Read / Handshake / renewing the deadlines on one end, incl. before the handshake. Oracle: a small state machine per end - delivered bytes are a prefix of what the peer wrote made of whole records; io.EOF only after everything written was delivered and only on close_notify or a cut exactly on a record boundary; a cut inside a record gives io.ErrUnexpectedEOF; every later Read repeats the failure and delivers nothing; after Close every call fails and a second Close reports net.ErrClosed; Write after CloseWrite fails; a failed handshake stays failed; early application data is never delivered; a cancelled handshake returns the context's error. Also: cancel with a context that has already ended when HandshakeContext is called (server role; the peer then runs the whole handshake and sends data: nothing may complete); api histories include Writes without payload (fail wherever a Write fails). distinct = distinct parameter vectors; non-trivial = the event under test happened"
}
func (c12) Components() (real, stub []string) {
	return []string{"tlcp.Conn (instrumented): Read/Write/Close/CloseWrite/HandshakeContext, alert handling, error latching", "the handshake-context interrupter goroutine (real, unmanaged; its transport Close is awaited as an external event)"},
		[]string{"transport with cut points, scripted peer for alerts / early data / stalls, clock, randomness, scheduler"}
}
func (c12) Assumptions() []string {
	return []string{"Write after a fatal alert was RECEIVED is not judged (the property's wording covers reads and locally detected errors unambiguously; crypto/tls, from which this code derives, keeps the write side usable)", "one Write of <= 1024 bytes is one record"}
}
func (c12) Count(tier string) int {
	if tier == "thorough" {
		return 60000
	}
	return 3000
}
func (c12) Make(tier string, seed uint64, i int) *Case {
	return &Case{Prop: "C12", Index: i, Seed: CaseSeed(seed, "C12", i)}
}

var c12APIOps = []string{"handshake", "write", "read", "closewrite", "close", "write", "close", "handshake", "deadline", "write0", "write0"}

func drawC12(src *vs.Src) *c12Params {
	p := &c12Params{Suite: pickU16(src, []uint16{ECC_GCM, ECC_CBC}), Dir: src.Intn(2), Seg: src.Intn(3)}
	switch src.Intn(10) {
	case 0, 1, 2, 3:
		p.Mode = "cut"
		p.N = 1 + src.Intn(4)
		p.Len = pickInt(src, []int{1, 16, 33, 100, 1000})
		p.Close = pickStr(src, []string{"close", "closewrite", "nothing"})
		p.CutRec = src.Intn(p.N+2) - 1 // -1: no cut; N: the close_notify record (if any)
		wl := recWireLen(p.Suite, p.Len)
		if p.CutRec == p.N {
			wl = recWireLen(p.Suite, 2)
		}
		p.Keep = src.Intn(wl)
		if src.Bool(1, 3) {
			p.Keep = 0
		}
		if src.Bool(1, 4) && p.CutRec >= 0 && p.CutRec < p.N {
			p.Inject = true
		}
	case 4, 5:
		p.Mode = "alert"
		p.Role = pickStr(src, []string{"client", "server"})
		p.Level = pickInt(src, []int{1, 1, 2, 2, 0, 3, 255})
		p.Desc = pickInt(src, []int{0, 10, 20, 40, 42, 48, 50, 80, 90, 100, 112, 120, 255})
		p.Count = pickInt(src, []int{1, 1, 2, 16, 17})
	case 6:
		p.Mode = "early-app"
		p.Role = pickStr(src, []string{"client", "server"})
		p.Step = src.Intn(7)
		p.Empty = src.Bool(1, 2)
	case 7:
		p.Mode = "cancel"
		p.Role = pickStr(src, []string{"client", "server"})
		p.Step = src.Intn(4)
		p.Second = src.Bool(1, 3)
		if !p.Second && src.Bool(1, 3) {
			p.Pre, p.Role = true, "server"
		}
		if !p.Pre && src.Bool(1, 2) {
			// instead of cancelling a context: the connection's deadline expires while the peer is slow; the
			// deadline is then cleared and the peer's messages arrive late
			p.Mode = "hs-timeout"
		}
	case 8:
		// Close from one task while another task's Write is blocked in a full transport; data from the peer is
		// waiting in the connection's buffers
		p.Mode = "close-inflight"
	default:
		p.Mode = "api"
		n := 2 + src.Intn(6)
		for i := 0; i < n; i++ {
			p.Seq = append(p.Seq, c12APIOps[src.Intn(len(c12APIOps))])
		}
	}
	return p
}

func (c12) Run(c *Case, src *vs.Src) *Result {
	r := &Result{}
	var p *c12Params
	if c.P != nil {
		p = &c12Params{}
		if err := json.Unmarshal(c.P, p); err != nil {
			r.Infra = "bad params: " + err.Error()
			return r
		}
	} else {
		p = drawC12(src)
	}
	r.Sample = p
	pj, _ := json.Marshal(p)
	r.Key = hashKey(string(pj))
	switch p.Mode {
	case "cut":
		c12Cut(c, src, p, r)
	case "alert", "early-app", "cancel", "hs-timeout":
		c12Scripted(c, src, p, r)
	case "api":
		c12API(c, src, p, r)
	case "close-inflight":
		c12CloseInflight(c, src, p, r)
	}
	return r
}

func c12Pair(c *Case, src *vs.Src, p *c12Params) (*World, *Pair) {
	w := NewWorld(c.Seed, src)
	w.K.MaxElapsed = 200 * time.Second
	env := NewEnv(w)
	cc := &EPConf{Suites: []uint16{p.Suite}, ServerName: "server.test"}
	sc := &EPConf{Suites: []uint16{p.Suite}, Certs: []string{"server_sig", "server_enc"}}
	pair := NewPair(TLCP, env, cc, sc, "c", "s", "client:1", "server:443")
	pair.Pipe.C.Seg, pair.Pipe.S.Seg = p.Seg, p.Seg
	return w, pair
}

func c12Cut(c *Case, src *vs.Src, p *c12Params, r *Result) {
	sigp := "C12 cut " + p.Close
	w, pair := c12Pair(c, src, p)
	var plan []simnet.RFault
	if p.Inject {
		garbage := append([]byte{23, 1, 1, 0, 48}, bytes.Repeat([]byte{0x5a}, 48)...)
		plan = append(plan, simnet.RFault{Dir: p.Dir, Type: ref.RecAppData, N: p.CutRec, Kind: simnet.RInject, Data: garbage})
	} else if p.CutRec >= 0 {
		f := simnet.RFault{Dir: p.Dir, Type: ref.RecAppData, N: p.CutRec, Kind: simnet.RTrunc, Keep: p.Keep}
		if p.CutRec == p.N {
			f.Type, f.N = ref.RecAlert, 0 // the close_notify
		}
		if p.Keep == 0 {
			f.Kind = simnet.RCutAt
		}
		plan = append(plan, f)
	}
	mitm := simnet.NewRecordMITM(p.Dir, plan)
	pair.Pipe.SetFilter(p.Dir, mitm)
	writer, reader := pair.C, pair.S
	if p.Dir == 1 {
		writer, reader = pair.S, pair.C
	}
	var wHS, rHS error
	var got []byte
	var errs []error
	var ns []int
	w.Go("writer", func() {
		if wHS = writer.Handshake(); wHS != nil {
			writer.Close()
			return
		}
		for i := 0; i < p.N; i++ {
			if _, err := writer.Write(c05Record(i, p.Len)); err != nil {
				break
			}
		}
		switch p.Close {
		case "close":
			writer.Close()
		case "closewrite":
			writer.CloseWrite()
		}
	})
	w.Go("reader", func() {
		if rHS = reader.Handshake(); rHS != nil {
			reader.Close()
			return
		}
		buf := make([]byte, 4096)
		for len(errs) < 4 {
			if p.Close == "nothing" || p.Close == "closewrite" {
				// nothing tells the reader that the stream is over unless the transport ends: bound the wait
				reader.SetReadDeadline(vs.Now().Add(2 * time.Second))
			}
			n, err := reader.Read(buf)
			got = append(got, buf[:n]...)
			if err != nil {
				errs = append(errs, err)
				ns = append(ns, n)
				if isTimeout(err) {
					break
				}
			}
			if len(got) > 100000 {
				break
			}
		}
		reader.Close()
	})
	reason, unf := w.Run()
	w.Finish(r, sigp)
	if reason != vs.Done {
		r.Violate("not-ended", sigp+" not-ended "+reason, "run ended with %q, unfinished %v", reason, unf)
		return
	}
	if wHS != nil || rHS != nil {
		r.Violate("setup", sigp+" handshake-failed", "%v %v", wHS, rHS)
		return
	}
	cutFired := len(plan) > 0 && mitm.AllFired()
	r.Trivial = len(plan) > 0 && !cutFired
	// expectation
	whole := p.N
	var wantErr string
	switch {
	case cutFired && p.Inject:
		whole = p.CutRec
		wantErr = "local error: tlcp: bad record MAC"
	case cutFired && p.CutRec < p.N:
		whole = p.CutRec
		if p.Keep == 0 {
			wantErr = "EOF"
		} else {
			wantErr = "unexpected EOF"
		}
	case cutFired: // cut at / inside the close_notify record
		if p.Keep == 0 {
			wantErr = "EOF"
		} else {
			wantErr = "unexpected EOF"
		}
	case p.Close == "close" || p.Close == "closewrite":
		wantErr = "EOF" // close_notify arrived
	default:
		wantErr = "timeout" // nothing ends the stream
	}
	var want []byte
	for i := 0; i < whole; i++ {
		want = append(want, c05Record(i, p.Len)...)
	}
	if !bytes.Equal(got, want) {
		r.Violate("delivered", sigp+" delivered-not-whole-records", "reader got %d bytes, expected the %d bytes of the %d whole records before the end (cut at record %d keep %d); errors %v", len(got), len(want), whole, p.CutRec, p.Keep, errs)
	}
	if len(errs) == 0 {
		r.Violate("no-end", sigp+" no-error", "the reader never saw an end of stream")
		return
	}
	first := errs[0]
	gotErr := first.Error()
	switch {
	case first == io.EOF:
		gotErr = "EOF"
	case first == io.ErrUnexpectedEOF:
		gotErr = "unexpected EOF"
	case isTimeout(first):
		gotErr = "timeout"
	}
	if gotErr != wantErr {
		r.Violate("end-kind", fmt.Sprintf("%s end=%s want=%s", sigp, clipSig(gotErr), wantErr), "the stream ended with %q, expected %q (cut fired %v at record %d keep %d, writer did %q); all errors %v", gotErr, wantErr, cutFired, p.CutRec, p.Keep, p.Close, errs)
	}
	if wantErr != "timeout" {
		for i := 1; i < len(errs); i++ {
			if errs[i] != first && errs[i].Error() != first.Error() {
				r.Violate("not-latched", sigp+" error-changed", "Read #%d after the end returned %v, the first one %v", i, errs[i], first)
				break
			}
		}
		for i, n := range ns {
			if n != 0 && i > 0 {
				r.Violate("not-latched", sigp+" data-after-end", "Read #%d after the end delivered %d bytes", i, n)
			}
		}
		if len(errs) < 3 {
			r.Violate("not-latched", sigp+" read-succeeded-after-end", "a Read after the end of stream did not fail: %v", errs)
		}
	}
	r.Outcome = "cut " + gotErr
	r.Stat("end_"+clipSig(wantErr), 1)
}

func c12Scripted(c *Case, src *vs.Src, p *c12Params, r *Result) {
	sigp := fmt.Sprintf("C12 %s %s", p.Mode, p.Role)
	realIsClient := p.Role == "client"
	w := NewWorld(c.Seed, src)
	w.K.MaxElapsed = 60 * time.Second
	env := NewEnv(w)
	var rc *EPConf
	o := &peer.Opts{Suites: []uint16{p.Suite}}
	if realIsClient {
		rc = &EPConf{Suites: []uint16{p.Suite}, ServerName: "server.test"}
		o.Certs, o.SigKey, o.EncKey = ders("server_sig", "server_enc"), sm2Key("server_sig"), sm2Key("server_enc")
	} else {
		rc = &EPConf{Suites: []uint16{p.Suite}, Certs: []string{"server_sig", "server_enc"}}
		o.SNI = "server.test"
	}
	h := NewHalf(TLCP, env, rc, realIsClient, "real")
	h.Peer.OwnEncKey = sm2Key("server_enc")
	var script []string
	if realIsClient {
		script = []string{"rCH", "SH", "CERT", "SKX", "SHD", "rFLIGHT", "CCS", "FIN"}
	} else {
		script = []string{"CH", "rFLIGHT", "CKE", "CCS", "FIN", "rFLIGHT"}
	}
	nSends := 0
	for _, op := range script {
		if op[0] != 'r' {
			nSends++
		}
	}
	if p.Step >= nSends {
		p.Step = nSends - 1 // deviate before the peer's own Finished: afterwards the real endpoint may legitimately be complete
	}
	var hsErr error
	var hs2 error
	var reads []string
	var readData int
	var wErr error
	var ctxErr error
	ctx, cancel := context.WithCancel(context.Background())
	defer cancel()
	stalled := false
	firstIn := false
	var firstErr error
	if p.Mode == "cancel" && p.Second {
		w.Go("real-first", func() {
			firstIn = true
			_, firstErr = h.Real.Read(make([]byte, 16))
			if firstErr == nil {
				firstErr = fmt.Errorf("Read returned data")
			}
		})
	}
	if p.Mode == "cancel" && p.Pre {
		cancel()
		ctxErr = ctx.Err()
		h.Pipe.S.AwaitExternalClose = true
	}
	w.Go("real", func() {
		if p.Mode == "cancel" && p.Second {
			vs.Block(func() bool { return firstIn }, time.Time{})
			vs.Yield()
		}
		switch p.Mode {
		case "cancel":
			hsErr = h.TReal.HandshakeContext(ctx)
		case "hs-timeout":
			h.TReal.SetDeadline(vs.Now().Add(time.Second))
			hsErr = h.Real.Handshake()
			h.TReal.SetDeadline(time.Time{})
			// the slow peer resumes at t = 2 s (and waits 400 ms for answers): be back just after that
			vs.Sleep(1100 * time.Millisecond)
		default:
			hsErr = h.Real.Handshake()
		}
		hs2 = h.Real.Handshake()
		buf := make([]byte, 256)
		for i := 0; i < 4; i++ {
			h.Real.SetReadDeadline(vs.Now().Add(3 * time.Second))
			n, err := h.Real.Read(buf)
			readData += n
			reads = append(reads, fmt.Sprintf("n=%d err=%v", n, err))
			if err == nil {
				i-- // data: keep reading
				if readData > 10000 {
					break
				}
			} else if isTimeout(err) {
				break
			}
		}
		_, wErr = h.Real.Write([]byte("after"))
		h.Real.Close()
	})
	w.Go("peer", func() {
		pr := h.Peer
		switch p.Mode {
		case "alert":
			out := pr.Run(o, script)
			if out.Err != nil {
				return
			}
			for i := 0; i < p.Count; i++ {
				pr.SendAlert(byte(p.Level), byte(p.Desc))
			}
			pr.SendApp([]byte("data after the alerts"))
			pr.Run(o, []string{"rAPP"})
		case "early-app", "cancel", "hs-timeout":
			if p.Mode == "cancel" && p.Pre {
				// the server's first transport read (inside the handshake, after the library has started its
				// interrupter goroutine) waits for that goroutine to close the transport (AwaitExternalClose); a
				// library that does not close it gets the whole handshake and some data
				vs.Block(func() bool { return h.Pipe.S.Reads > 0 }, time.Time{})
				if out := pr.Run(o, script); out.Err == nil {
					pr.SendApp([]byte("data for a connection whose handshake was cancelled"))
				}
				pr.Run(o, []string{"rAPP"})
				break
			}
			sends := 0
			rest := script
			for i, op := range script {
				if op[0] != 'r' {
					if sends == p.Step {
						rest = script[i:]
						break
					}
					sends++
				}
				if out := pr.Run(o, []string{op}); out.Err != nil {
					return
				}
			}
			if p.Mode == "hs-timeout" {
				// slow: the rest of the script (and some data) comes two seconds later, after the deadline
				vs.Sleep(2 * time.Second)
				if out := pr.Run(o, rest); out.Err == nil {
					pr.SendApp([]byte("early bird"))
				}
				pr.Run(o, []string{"rAPP"})
			} else if p.Mode == "early-app" {
				if p.Empty {
					pr.SendApp(nil)
					// an empty record delivers nothing by itself: what follows it must not count as a completed handshake
					pr.Run(o, rest)
					pr.SendApp([]byte("after the empty early record"))
				} else {
					pr.SendApp([]byte("too early"))
				}
				pr.Run(o, []string{"rAPP"})
			} else {
				stalled = true
				pr.Run(o, []string{"rAPP"}) // stall: just wait
			}
		}
		h.ClosePeerSide()
	})
	if p.Mode == "cancel" && !p.Pre {
		w.Go("canceller", func() {
			vs.Block(func() bool { return stalled }, time.Time{})
			vs.Sleep(5 * time.Millisecond)
			cancel()
			// the library's interrupter goroutine closes the transport; wait for that external event
			for i := 0; i < 20000 && !h.realTransportClosed(); i++ {
				time.Sleep(100 * time.Microsecond)
			}
			ctxErr = ctx.Err()
		})
	}
	reason, unf := w.Run()
	w.Finish(r, sigp)
	if reason != vs.Done {
		r.Violate("not-ended", sigp+" not-ended "+reason, "run ended with %q, unfinished %v", reason, unf)
		return
	}
	r.Outcome = fmt.Sprintf("hs=%v reads=%v", hsErr != nil, reads)
	switch p.Mode {
	case "cancel":
		if hsErr != context.Canceled {
			r.Violate("cancel", sigp+" wrong-error", "HandshakeContext returned %v after the context was cancelled (ctx.Err()=%v) at step %d", hsErr, ctxErr, p.Step)
		}
		if hs2 == nil || readData > 0 {
			r.Violate("not-latched", sigp+" usable-after-cancel", "after a cancelled handshake: Handshake again = %v, bytes read %d", hs2, readData)
		}
	case "hs-timeout":
		if hsErr == nil || !isTimeout(hsErr) {
			r.Violate("setup", sigp+" no-timeout", "Handshake with a deadline one second ahead and a peer that stalls for two returned %v", hsErr)
			return
		}
		if hs2 == nil || readData > 0 || wErr == nil {
			r.Violate("not-latched", sigp+" usable-after-failed-handshake", "the first Handshake failed with %v (deadline); after the deadline was cleared and the peer's late messages arrived: Handshake again = %v, Read delivered %d bytes (%v), Write = %v", hsErr, hs2, readData, reads, wErr)
		}
	case "early-app":
		if hsErr == nil {
			r.Violate("early-data", sigp+" handshake-completed", "the handshake completed although application data arrived after %d handshake messages", p.Step)
		}
		if readData > 0 {
			r.Violate("early-data", sigp+" early-data-delivered", "%d bytes of application data sent before completion were delivered", readData)
		}
		if hs2 == nil || (hsErr != nil && hs2.Error() != hsErr.Error()) {
			r.Violate("not-latched", sigp+" handshake-error-not-latched", "first Handshake: %v, second: %v", hsErr, hs2)
		}
		if wErr == nil {
			r.Violate("not-latched", sigp+" write-after-failed-handshake", "Write succeeded after a failed handshake")
		}
	case "alert":
		if hsErr != nil {
			r.Violate("setup", sigp+" handshake-failed", "%v", hsErr)
			return
		}
		fatal := !(p.Level == 1 && p.Desc != 0 && p.Count <= 16)
		closeNotify := p.Desc == 0
		if !fatal {
			// tolerated warnings: the data after them must arrive
			if readData != len("data after the alerts") {
				r.Violate("alert", sigp+" warning-not-tolerated", "%d warning alerts (desc %d) were not tolerated: reads %v", p.Count, p.Desc, reads)
			}
			return
		}
		if readData > 0 {
			r.Violate("alert", sigp+" data-after-fatal-alert", "alert level %d desc %d x%d: %d bytes were delivered afterwards; reads %v", p.Level, p.Desc, p.Count, readData, reads)
		}
		if len(reads) < 2 {
			r.Violate("alert", sigp+" no-error", "reads %v", reads)
			return
		}
		if closeNotify && reads[0] != "n=0 err=EOF" {
			r.Violate("alert", sigp+" close-notify-not-eof", "close_notify (level %d) gave %v", p.Level, reads)
		}
		for i := 1; i < len(reads); i++ {
			if reads[i] != reads[0] {
				r.Violate("not-latched", sigp+" error-changed", "reads after alert level %d desc %d: %v", p.Level, p.Desc, reads)
				break
			}
		}
	}
}

func (h *Half) realTransportClosed() bool {
	if h.Peer.IsClient {
		return h.Pipe.S.IsClosed()
	}
	return h.Pipe.C.IsClosed()
}

func c12API(c *Case, src *vs.Src, p *c12Params, r *Result) {
	sigp := "C12 api"
	w, pair := c12Pair(c, src, p)
	ut, peerEP := pair.C, pair.S
	if p.Dir == 1 {
		ut, peerEP = pair.S, pair.C
	}
	type step struct {
		op  string
		n   int
		err error
	}
	var trace []step
	w.Go("peer", func() {
		if err := peerEP.Handshake(); err != nil {
			peerEP.Close()
			return
		}
		peerEP.Write([]byte("hello from the peer"))
		buf := make([]byte, 256)
		for {
			peerEP.SetReadDeadline(vs.Now().Add(60 * time.Second))
			if _, err := peerEP.Read(buf); err != nil {
				break
			}
		}
		peerEP.Close()
	})
	w.Go("ut", func() {
		buf := make([]byte, 256)
		for _, op := range p.Seq {
			s := step{op: op}
			switch op {
			case "handshake":
				s.err = ut.Handshake()
			case "write":
				s.n, s.err = ut.Write([]byte("payload"))
			case "write0":
				s.n, s.err = ut.Write([]byte{})
			case "read":
				ut.SetReadDeadline(vs.Now().Add(time.Second))
				s.n, s.err = ut.Read(buf)
			case "closewrite":
				s.err = ut.CloseWrite()
			case "close":
				s.err = ut.Close()
			case "deadline":
				// the application renews its deadlines (an hour ahead): no effect on what is allowed afterwards
				if t, ok := ut.(tEP); ok {
					t.Conn.SetDeadline(vs.Now().Add(time.Hour))
				}
			}
			trace = append(trace, s)
		}
		ut.Close()
	})
	reason, unf := w.Run()
	w.Finish(r, sigp)
	if reason != vs.Done {
		r.Violate("not-ended", sigp+" not-ended "+reason, "sequence %v: run ended with %q, unfinished %v", p.Seq, reason, unf)
		return
	}
	// state machine
	closed, halfClosed, shook := false, false, false
	for i, s := range trace {
		desc := fmt.Sprintf("step %d %s in %v returned n=%d err=%v", i, s.op, p.Seq, s.n, s.err)
		switch s.op {
		case "handshake":
			if closed && !shook && s.err == nil {
				r.Violate("api", sigp+" handshake-after-close", "%s", desc)
			}
			if !closed && s.err != nil {
				r.Violate("api", sigp+" handshake-failed", "%s", desc)
			}
			if s.err == nil {
				shook = true
			}
		case "write0":
			// a Write without payload is a Write: it fails wherever a Write fails, and otherwise reports 0
			switch {
			case closed && s.err == nil:
				r.Violate("api", sigp+" empty-write-after-close", "%s", desc)
			case halfClosed && s.err == nil:
				r.Violate("api", sigp+" empty-write-after-closewrite", "%s", desc)
			case !closed && !halfClosed && (s.err != nil || s.n != 0):
				r.Violate("api", sigp+" empty-write-failed", "%s", desc)
			}
			if s.err == nil {
				shook = true
			}
		case "write":
			switch {
			case closed && s.err == nil:
				r.Violate("api", sigp+" write-after-close", "%s", desc)
			case halfClosed && s.err == nil:
				r.Violate("api", sigp+" write-after-closewrite", "%s", desc)
			case !closed && !halfClosed && (s.err != nil || s.n != 7):
				r.Violate("api", sigp+" write-failed", "%s", desc)
			}
			if s.err == nil {
				shook = true
			}
		case "read":
			if closed && (s.err == nil || s.n > 0) {
				r.Violate("api", sigp+" read-after-close", "%s", desc)
			}
			if !closed {
				shook = true
			}
		case "closewrite":
			switch {
			case !shook && !closed && s.err == nil:
				r.Violate("api", sigp+" closewrite-before-handshake", "%s", desc)
			case shook && !closed && s.err != nil:
				r.Violate("api", sigp+" closewrite-failed", "%s", desc)
			}
			if shook && s.err == nil {
				halfClosed = true
			}
		case "close":
			if closed && s.err != net.ErrClosed {
				r.Violate("api", sigp+" second-close", "%s (want net.ErrClosed)", desc)
			}
			closed = true
		}
	}
	r.Stat("api_sequences", 1)
}

// c12CloseInflight: Close while a Write of another task is blocked in the transport. Afterwards the connection is
// closed for every caller: Read delivers nothing (although the peer's data had arrived), Write fails, a second
// Close reports net.ErrClosed.
func c12CloseInflight(c *Case, src *vs.Src, p *c12Params, r *Result) {
	sigp := "C12 close-inflight"
	w, pair := c12Pair(c, src, p)
	ut, peerEP := pair.C, pair.S
	utRaw, peerRaw := pair.Pipe.C, pair.Pipe.S
	if p.Dir == 1 {
		ut, peerEP, utRaw, peerRaw = pair.S, pair.C, pair.Pipe.S, pair.Pipe.C
	}
	var hsErr, wErr, close1, close2, readErr, write2 error
	readN := 0
	stage := 0
	inWrite := false
	w.Go("peer", func() {
		if err := peerEP.Handshake(); err != nil {
			return
		}
		peerEP.Write([]byte("hello from the peer"))
		// never reads; goes away late
		vs.Block(func() bool { return stage == 3 }, vs.Now().Add(40*time.Second))
		peerEP.Close()
	})
	w.Go("ut-writer", func() {
		if hsErr = ut.Handshake(); hsErr != nil {
			stage = 9
			return
		}
		// read part of the peer's record, so that the rest waits in the connection's buffer
		b := make([]byte, 1)
		ut.Read(b)
		utRaw.SetLimit(2000)
		stage = 1
		for k := 0; k < 20 && wErr == nil; k++ {
			inWrite = true
			_, wErr = ut.Write(make([]byte, 1000))
			inWrite = false
		}
	})
	w.Go("ut-closer", func() {
		vs.Block(func() bool { return stage != 0 }, time.Time{})
		if stage == 9 {
			return
		}
		vs.Block(func() bool { return inWrite && peerRaw.Pending() >= 2000 }, vs.Now().Add(5*time.Second))
		close1 = ut.Close()
		buf := make([]byte, 64)
		readN, readErr = ut.Read(buf)
		_, write2 = ut.Write([]byte("after close"))
		close2 = ut.Close()
		stage = 3
	})
	reason, unf := w.Run()
	w.Finish(r, sigp)
	if hsErr != nil {
		r.Violate("setup", sigp+" handshake-failed", "%v", hsErr)
		return
	}
	if reason != vs.Done {
		r.Violate("not-ended", sigp+" not-ended "+reason, "run ended with %q, unfinished %v", reason, unf)
		return
	}
	r.Outcome = fmt.Sprintf("close=%v read=%d,%v write=%v close2=%v", close1, readN, readErr, write2, close2)
	if readN > 0 || readErr == nil {
		r.Violate("api", sigp+" read-after-close", "after Close (returned %v) with a Write blocked in the transport, Read returned n=%d err=%v", close1, readN, readErr)
	}
	if write2 == nil {
		r.Violate("api", sigp+" write-after-close", "Write after Close returned nil")
	}
	if close2 != net.ErrClosed {
		r.Violate("api", sigp+" second-close", "second Close returned %v (want net.ErrClosed)", close2)
	}
	r.Stat("close_inflight", 1)
}
