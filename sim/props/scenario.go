package props

import (
	"bytes"
	"fmt"
	"io"
	"time"

	"gitee.com/Trisia/gotlcp/dtlcp"
	"gitee.com/Trisia/gotlcp/vs"
)

// HSOut is what a handshake(+echo) scenario observed.
type HSOut struct {
	CErr, SErr   error
	CEnded       bool // the Handshake call returned
	SEnded       bool
	CCS, SCS     CS
	CFin, SFin   [2][12]byte // [client Finished, server Finished] as seen by C / S
	EchoTried    bool
	CEchoErr     string
	SEchoErr     string
	C2S, S2C     []byte // payloads sent
	GotC2S       []byte // what the server read
	GotS2C       []byte // what the client read
	CDone, SDone time.Duration
	CEOF         string // what the server's final read returned after the client's Close (TLCP)
}

type EchoOpts struct {
	Echo     bool
	C2S, S2C []byte
	// C2SParts, if set, are the sizes of the successive Write calls the client makes for C2S (default: one Write).
	C2SParts []int
	// Think: the server application takes this long (virtual time) before it answers; the client waits in Read
	// without any deadline of its own
	Think time.Duration
	// SrvReadFrom (datagram stack): the server application reads with ReadFrom instead of Read
	SrvReadFrom bool
	// NoClose leaves the endpoints open at the end (caller closes).
	NoClose bool
}

// readFull reads exactly n bytes through ep.Read.
func readFull(ep io.Reader, n int) ([]byte, error) {
	buf := make([]byte, n)
	got := 0
	for got < n {
		m, err := ep.Read(buf[got:])
		got += m
		if got == n {
			return buf, nil // a Read may deliver the last bytes together with io.EOF
		}
		if err != nil {
			return buf[:got], err
		}
		if m == 0 {
			return buf[:got], fmt.Errorf("read returned 0 bytes without error")
		}
	}
	return buf, nil
}

// SpawnHandshakeEcho starts a client task and a server task that handshake,
// optionally exchange one payload each way and close. The application
// behaviour modelled is the usual one: an endpoint whose handshake fails closes
// its connection.
func SpawnHandshakeEcho(w *World, p *Pair, o EchoOpts, out *HSOut, tag string) {
	out.C2S, out.S2C = o.C2S, o.S2C
	w.Go("client"+tag, func() {
		err := p.C.Handshake()
		out.CErr, out.CEnded = err, true
		out.CDone = w.K.Elapsed()
		if err != nil {
			p.C.Close()
			return
		}
		if o.Echo {
			out.EchoTried = true
			rest := o.C2S
			for _, n := range o.C2SParts {
				if n > len(rest) {
					n = len(rest)
				}
				if _, err := p.C.Write(rest[:n]); err != nil {
					out.CEchoErr = "client write: " + err.Error()
					p.C.Close()
					return
				}
				rest = rest[n:]
			}
			if len(rest) > 0 || len(o.C2SParts) == 0 {
				if _, err := p.C.Write(rest); err != nil {
					out.CEchoErr = "client write: " + err.Error()
					p.C.Close()
					return
				}
			}
			got, err := readFull(p.C, len(o.S2C))
			out.GotS2C = got
			if err != nil {
				out.CEchoErr = "client read: " + err.Error()
			}
		}
		if !o.NoClose {
			p.C.Close()
		}
	})
	w.Go("server"+tag, func() {
		err := p.S.Handshake()
		out.SErr, out.SEnded = err, true
		out.SDone = w.K.Elapsed()
		if err != nil {
			p.S.Close()
			return
		}
		if o.Echo {
			var rd io.Reader = p.S
			if o.SrvReadFrom && p.DS != nil {
				rd = rfReader{p.DS}
			}
			got, err := readFull(rd, len(o.C2S))
			out.GotC2S = got
			if err != nil {
				out.SEchoErr = "server read: " + err.Error()
				p.S.Close()
				return
			}
			if o.Think > 0 {
				vs.Sleep(o.Think)
			}
			if _, err := p.S.Write(o.S2C); err != nil {
				out.SEchoErr = "server write: " + err.Error()
			}
			if p.Stack == TLCP && !o.NoClose {
				// the client closes after reading the reply: expect a clean EOF
				b := make([]byte, 8)
				n, err := p.S.Read(b)
				out.CEOF = fmt.Sprintf("n=%d err=%v", n, err)
			}
		}
		if !o.NoClose {
			p.S.Close()
		}
	})
}

// Collect reads the connection states after the run.
func (out *HSOut) Collect(p *Pair) {
	out.CCS, out.SCS = p.C.CS(), p.S.CS()
	out.CFin[0], out.CFin[1] = p.C.Fin()
	out.SFin[0], out.SFin[1] = p.S.Fin()
}

func errStr(e error) string {
	if e == nil {
		return "<nil>"
	}
	return e.Error()
}

// CheckAgreement compares the two endpoints' views after both completed.
func (out *HSOut) CheckAgreement() string {
	a, b := out.CCS, out.SCS
	switch {
	case !a.Done || !b.Done:
		return fmt.Sprintf("HandshakeComplete client=%v server=%v", a.Done, b.Done)
	case a.Vers != b.Vers:
		return fmt.Sprintf("version client=%04x server=%04x", a.Vers, b.Vers)
	case a.Suite != b.Suite:
		return fmt.Sprintf("suite client=%04x server=%04x", a.Suite, b.Suite)
	case a.ALPN != b.ALPN:
		return fmt.Sprintf("alpn client=%q server=%q", a.ALPN, b.ALPN)
	case a.Resumed != b.Resumed:
		return fmt.Sprintf("resumed client=%v server=%v", a.Resumed, b.Resumed)
	}
	// Each side records only the Finished values it needs (a server keeps the client's on a full
	// handshake and its own on a resumed one); compare what both sides recorded.
	var zero [12]byte
	for i := 0; i < 2; i++ {
		if out.CFin[i] != zero && out.SFin[i] != zero && out.CFin[i] != out.SFin[i] {
			return fmt.Sprintf("finished values differ: client sees %x/%x server sees %x/%x", out.CFin[0], out.CFin[1], out.SFin[0], out.SFin[1])
		}
	}
	if out.CFin[0] == zero || out.CFin[1] == zero {
		return fmt.Sprintf("client did not record both Finished values: %x/%x", out.CFin[0], out.CFin[1])
	}
	return ""
}

// CheckEcho verifies both payloads arrived unchanged.
func (out *HSOut) CheckEcho() string {
	if out.CEchoErr != "" || out.SEchoErr != "" {
		return out.CEchoErr + " " + out.SEchoErr
	}
	if !bytes.Equal(out.GotC2S, out.C2S) {
		return fmt.Sprintf("server read %d bytes, client wrote %d (or content differs)", len(out.GotC2S), len(out.C2S))
	}
	if !bytes.Equal(out.GotS2C, out.S2C) {
		return fmt.Sprintf("client read %d bytes, server wrote %d (or content differs)", len(out.GotS2C), len(out.S2C))
	}
	return ""
}

// payload draws a deterministic payload of length n.
func payload(src *vs.Src, n int, tag byte) []byte {
	b := make([]byte, n)
	x := uint32(src.Intn(1<<16)) | uint32(tag)<<16
	for i := range b {
		x = x*1664525 + 1013904223
		b[i] = byte(x >> 24)
	}
	return b
}

// rfReader reads a datagram connection through ReadFrom.
type rfReader struct{ c *dtlcp.Conn }

func (r rfReader) Read(b []byte) (int, error) { n, _, err := r.c.ReadFrom(b); return n, err }
