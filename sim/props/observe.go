package props

import (
	"bytes"
	"crypto"

	"verifsim/fix"
	"verifsim/ref"
	"verifsim/simnet"
)

// keyResolver maps certificate DER to the fixture private key.
func keyResolver(names ...string) func([]byte) crypto.PrivateKey {
	return func(der []byte) crypto.PrivateKey {
		for _, n := range names {
			if bytes.Equal(fix.DER(n), der) {
				return fix.Key(n)
			}
		}
		return nil
	}
}

// WireUnits extracts what each side handed to the transport (sent=true) or
// what the transport delivered (sent=false, stream stack only).
func (p *Pair) WireUnits(sent bool) [2][][]byte {
	var u [2][][]byte
	if p.Pipe != nil {
		l := &p.Pipe.Wire
		if sent {
			l = &p.Pipe.Sent
		}
		u[0] = [][]byte{l.Bytes(simnet.DirC2S)}
		u[1] = [][]byte{l.Bytes(simnet.DirS2C)}
		return u
	}
	for _, d := range p.Net.SentLog() {
		u[d.Dir&1] = append(u[d.Dir&1], d.Data)
	}
	return u
}

// Observe runs the wire monitor over the pair's capture.
func (p *Pair) Observe(sec *ref.Secrets) *ref.View {
	return ref.Observe(p.Stack == DTLCP, p.WireUnits(true), sec)
}
