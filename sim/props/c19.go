package props

import (
	"encoding/json"
	"fmt"
	"sort"
	"strings"
	"sync"
	"time"

	"gitee.com/Trisia/gotlcp/dtlcp"
	"gitee.com/Trisia/gotlcp/vs"

	"verifsim/ref"
	"verifsim/simnet"
)

func refParse(b []byte) ([]ref.Record, []byte) { return ref.ParseRecords(b, true) }

// C19 — the DTLCP handshake survives datagram loss, duplication and reordering.
type c19 struct{}

func init() { Register(c19{}) }

type c19Params struct {
	Suite   uint16          `json:"suite"`
	Auth    bool            `json:"auth"`
	Resumed bool            `json:"resumed"`
	Plan    []simnet.DFault `json:"plan"`
	Lat0    bool            `json:"lat0,omitempty"` // zero network latency: both ends' timers expire at the same instant, the seed picks the order
	K       int             `json:"k"` // number of faults to draw when Plan is nil
	// InitMs / MaxMs: configured initial and maximum retransmission timeout (0: defaults, 1 s doubling without
	// a cap that matters here). With them the time allowed is the sum of the first k values of the configured
	// schedule min(initial*2^i, maximum).
	InitMs int `json:"init_ms,omitempty"`
	MaxMs  int `json:"max_ms,omitempty"`
	// WallAhead: the wall clock of the run reads 2031, AFTER the time the configurations report (2030); normally
	// it reads 2024, before it. Timers and deadlines belong to the wall clock, whichever way the two differ.
	WallAhead bool `json:"wall_ahead,omitempty"`
	// MinuteEdge: the configured clocks read hh:mm:59.6 when the run starts, so that a retransmission after the
	// first timeout falls into the next minute
	MinuteEdge bool `json:"minute_edge,omitempty"`
	// Declined (resumed mode): the client has narrowed its suites since the session was made, so that the server
	// finds the offered session, declines to resume it and a full handshake follows
	Declined bool `json:"declined,omitempty"`
	// SrvReadFrom: the server application reads its data with ReadFrom (not Read)
	SrvReadFrom bool `json:"srv_readfrom,omitempty"`
	// PMTUC: the client's path MTU (0: default). At 100 its hellos travel as two or three fragment datagrams (the
	// continuation fragments are named CHx#n)
	PMTUC int `json:"pmtu_client,omitempty"`
}

func (c19) ID() string    { return "C19" }
func (c19) Level() string { return "fault_enumeration" }
func (c19) Rule() string {
	return "real DTLCP client and server under virtual time on a network that applies a plan of at most k faults to the datagrams of the handshake and is reliable afterwards. Fault kinds per datagram: drop, duplicate, short delay (overtaken by the next datagram), long delay (past the retransmission timeout). k=0 (control: no timer may expire), all k=1 plans, all k=2 plans over the datagrams of the fault-free handshake, seeded k=3 plans (thorough), for full and resumed handshakes, suites, with client authentication; the schedule (including the order of simultaneous timer expiries) comes from the seed. Additionally, with configured timers whose maximum is not initial*2^n (1 s..1.5 s, 0.4 s..1 s, 0.6 s..0.6 s), the same flight lost two and three times in a row; single losses and duplications also with the wall clock AFTER the configured time (normally it is before it), single losses with the configured clock just below a full minute, and single losses in a full handshake that follows a declined resumption. Oracle: both endpoints complete within the sum of the first k values of the retransmission schedule (initial timeout doubling up to the configured maximum) plus slack of virtual time, agree on all negotiated parameters, and an echo in both directions works. Also: every single loss with the server application reading through ReadFrom; the client's hellos fragmented (client path MTU 100: 2-3 datagrams per hello; and 50 / 80, where the client's Finished is fragmented as well), each of those datagrams lost in turn. distinct = distinct (mode, plan); non-trivial = every planned fault hit a datagram"
}
func (c19) Components() (real, stub []string) {
	return []string{"dtlcp client+server (instrumented): flights, retransmission, back-off, dwell, replay window"},
		[]string{"datagram network with fault plan", "virtual clock and timers (vs kernel)", "randomness, scheduler"}
}
func (c19) Assumptions() []string {
	return []string{"default timers: initial retransmission timeout 1 s, doubling; the bound allows one expiry per fault at the back-off level reached", "fault positions refer to the k-th datagram sent in a direction (retransmissions count)"}
}

var c19Kinds = []string{simnet.FDrop, simnet.FDup, "delay-short", "delay-long"}

func c19Fault(dir int, name string, kind string) simnet.DFault {
	f := simnet.DFault{Dir: dir, Name: name, Kind: kind}
	switch kind {
	case "delay-short":
		f.Kind, f.P = simnet.FDelay, int64(3*time.Millisecond)
	case "delay-long":
		f.Kind, f.P = simnet.FDelay, int64(1500*time.Millisecond)
	}
	return f
}

// datagrams of a fault-free handshake, by name (see c19Datagram)
type c19Slot struct {
	dir  int
	name string
}

func c19Slots(resumed bool) []c19Slot {
	if resumed {
		return []c19Slot{{0, "CH0#1"}, {0, "CH1#1"}, {0, "F5b#1"}, {1, "HVR#1"}, {1, "F4r#1"}}
	}
	return []c19Slot{{0, "CH0#1"}, {0, "CH1#1"}, {0, "F5a#1"}, {0, "F5b#1"}, {1, "HVR#1"}, {1, "F4#1"}, {1, "F6#1"}}
}

var (
	c19Once  [2]sync.Once
	c19Lists [2][]c19Params
)

func c19List(tier string) []c19Params {
	ti := 0
	if tier == "thorough" {
		ti = 1
	}
	c19Once[ti].Do(func() {
		var out []c19Params
		type mode struct {
			suite uint16
			auth  bool
		}
		modes := []mode{{ECC_GCM, false}, {ECDHE_CBC, true}}
		if ti == 1 {
			modes = []mode{{ECC_GCM, false}, {ECC_CBC, true}, {ECDHE_GCM, true}, {ECDHE_CBC, true}, {ECC_GCM, true}}
		}
		for _, m := range modes {
			for _, resumed := range []bool{false, true} {
				slots := c19Slots(resumed)
				out = append(out, c19Params{Suite: m.suite, Auth: m.auth, Resumed: resumed, Plan: []simnet.DFault{}})
				for _, s := range slots {
					for _, k := range c19Kinds {
						out = append(out, c19Params{Suite: m.suite, Auth: m.auth, Resumed: resumed, Plan: []simnet.DFault{c19Fault(s.dir, s.name, k)}})
					}
				}
				for _, s := range slots {
					for _, k := range []string{simnet.FDrop, simnet.FDup} {
						out = append(out, c19Params{Suite: m.suite, Auth: m.auth, Resumed: resumed, WallAhead: true, Plan: []simnet.DFault{c19Fault(s.dir, s.name, k)}})
					}
					out = append(out, c19Params{Suite: m.suite, Auth: m.auth, Resumed: resumed, MinuteEdge: true, Plan: []simnet.DFault{c19Fault(s.dir, s.name, simnet.FDrop)}})
				}
				if !resumed && !m.auth {
					// the client's hellos are fragmented (path MTU 100): each of their datagrams lost in turn
					for _, name := range []string{"CH0#1", "CHx#1", "CH1#1", "CHx#2", "CHx#3"} {
						out = append(out, c19Params{Suite: m.suite, Auth: m.auth, PMTUC: 100, Plan: []simnet.DFault{c19Fault(0, name, simnet.FDrop)}})
					}
				}
				if !resumed {
					// near the smallest workable path MTU even the client's Finished is fragmented (its first fragments are
					// too short for the namer to tell the two hellos apart: both are CH1, their other fragments CHx)
					pm := 50
					if IsCBC(m.suite) {
						pm = 80
					}
					for _, name := range []string{"CH1#1", "CHx#1", "CHx#2", "CHx#3", "CH1#2", "CHx#5"} {
						out = append(out, c19Params{Suite: m.suite, Auth: m.auth, PMTUC: pm, Plan: []simnet.DFault{c19Fault(0, name, simnet.FDrop)}})
					}
				}
				for _, s := range slots {
					// the server application uses ReadFrom
					out = append(out, c19Params{Suite: m.suite, Auth: m.auth, Resumed: resumed, SrvReadFrom: true, Plan: []simnet.DFault{c19Fault(s.dir, s.name, simnet.FDrop)}})
				}
				if resumed {
					// the offered session is found but not resumed (the client no longer enables its suite): the
					// handshake that follows is a full one, with the datagrams of a full handshake
					for _, s := range c19Slots(false) {
						out = append(out, c19Params{Suite: m.suite, Auth: m.auth, Resumed: true, Declined: true, Plan: []simnet.DFault{c19Fault(s.dir, s.name, simnet.FDrop)}})
					}
				}
				for _, s := range slots {
					// the same flight lost twice (first transmission and first retransmission), and single losses
					// with zero latency (simultaneous timer expiry on both ends, order from the seed), twice
					second := strings.Replace(s.name, "#1", "#2", 1)
					out = append(out, c19Params{Suite: m.suite, Auth: m.auth, Resumed: resumed, Plan: []simnet.DFault{c19Fault(s.dir, s.name, simnet.FDrop), c19Fault(s.dir, second, simnet.FDrop)}})
					for rep := 0; rep < 2; rep++ {
						out = append(out, c19Params{Suite: m.suite, Auth: m.auth, Resumed: resumed, Lat0: true, Plan: []simnet.DFault{c19Fault(s.dir, s.name, simnet.FDrop)}})
					}
				}
				// configured timers whose maximum is not the initial value times a power of two: the same flight
				// lost two and three times in a row
				for _, tm := range [][2]int{{1000, 1500}, {400, 1000}, {600, 600}} {
					for _, s := range slots {
						var plan []simnet.DFault
						for rep := 1; rep <= 3; rep++ {
							plan = append(plan, c19Fault(s.dir, strings.Replace(s.name, "#1", fmt.Sprintf("#%d", rep), 1), simnet.FDrop))
							if rep >= 2 {
								out = append(out, c19Params{Suite: m.suite, Auth: m.auth, Resumed: resumed, InitMs: tm[0], MaxMs: tm[1], Plan: append([]simnet.DFault(nil), plan...)})
							}
						}
					}
				}
				for i := 0; i < len(slots); i++ {
					for j := i + 1; j < len(slots); j++ {
						for _, k1 := range c19Kinds {
							for _, k2 := range c19Kinds {
								out = append(out, c19Params{Suite: m.suite, Auth: m.auth, Resumed: resumed,
									Plan: []simnet.DFault{c19Fault(slots[i].dir, slots[i].name, k1), c19Fault(slots[j].dir, slots[j].name, k2)}})
							}
						}
					}
				}
				if ti == 1 {
					for i := 0; i < 3000; i++ {
						out = append(out, c19Params{Suite: m.suite, Auth: m.auth, Resumed: resumed, K: 3})
					}
				}
			}
		}
		c19Lists[ti] = out
	})
	return c19Lists[ti]
}

func (c19) Count(tier string) int { return len(c19List(tier)) }
func (c19) Make(tier string, seed uint64, i int) *Case {
	return &Case{Prop: "C19", Index: i, Seed: CaseSeed(seed, "C19", i), P: mustJSON(c19List(tier)[i])}
}

// planSig is the canonical description of a fault plan.
func planSig(plan []simnet.DFault) string {
	var parts []string
	for _, f := range plan {
		d := "c2s"
		if f.Dir == 1 {
			d = "s2c"
		}
		k := f.Kind
		if f.Kind == simnet.FDelay {
			if f.P >= int64(time.Second) {
				k = "delay-long"
			} else {
				k = "delay-short"
			}
		}
		_ = d
		parts = append(parts, fmt.Sprintf("%s %s", f.Name, k))
	}
	sort.Strings(parts)
	if len(parts) == 0 {
		return "none"
	}
	return strings.Join(parts, "+")
}

// c19Datagram names a datagram of the handshake by what it carries.
func c19Datagram(d *simnet.Dgram) string {
	recs, _ := refParse(d.Data)
	if len(recs) == 0 {
		return "garbage"
	}
	r0 := recs[0]
	switch {
	case r0.Type == 20:
		if d.Dir == 0 {
			return "F5b" // client ChangeCipherSpec + Finished
		}
		return "F6" // server ChangeCipherSpec + Finished
	case r0.Type == 22 && r0.Epoch == 0 && len(r0.Frag) >= 12:
		switch r0.Frag[0] {
		case 1:
			if r0.Frag[6] != 0 || r0.Frag[7] != 0 || r0.Frag[8] != 0 {
				return "CHx" // a fragment of a ClientHello that is not its first
			}
			// ClientHello: cookie length sits after version(2) random(32) session id
			b := r0.Frag[12:]
			if len(b) > 35 {
				sl := int(b[34])
				if len(b) > 35+sl && b[35+sl] == 0 {
					return "CH0"
				}
			}
			return "CH1"
		case 3:
			return "HVR"
		case 2:
			for _, x := range recs {
				if x.Type == 20 {
					return "F4r" // resumed: ServerHello + ChangeCipherSpec + Finished
				}
			}
			return "F4"
		case 11, 16:
			return "F5a"
		}
	case r0.Epoch > 0:
		return "protected"
	}
	return fmt.Sprintf("type%d", r0.Type)
}

// c19Describe lists the faults that fired, canonically: "<flight>#<occurrence> <kind>".
func c19Describe(n *simnet.Net, plan []simnet.DFault) []string {
	var out []string
	fired := n.Fired()
	for i, f := range plan {
		if !fired[i] {
			continue
		}
		k := f.Kind
		if f.Kind == simnet.FDelay {
			k = "delay-short"
			if f.P >= int64(time.Second) {
				k = "delay-long"
			}
		}
		out = append(out, fmt.Sprintf("%s %s", f.Name, k))
	}
	sort.Strings(out)
	return out
}

type c19Out struct {
	class   string // "" = fine
	detail  string
	desc    []string
	fired   int
	o       *HSOut
	w       *World
	pair    *Pair
	reason  string
	setup   string
}

func c19RunPlan(c *Case, src *vs.Src, p *c19Params, plan []simnet.DFault, r *Result, sigp string) *c19Out {
	cc := &EPConf{Suites: []uint16{p.Suite}, ServerName: "server.test", Cache: "c", PMTU: p.PMTUC}
	sc := &EPConf{Suites: []uint16{p.Suite}, Certs: []string{"server_sig", "server_enc"}, ClientCAs: []string{"ca1"}, Cache: "s"}
	if p.Auth || IsECDHE(p.Suite) {
		cc.Certs = []string{"client_sig", "client_enc"}
	}
	if p.Auth {
		sc.Auth = 4
	}
	cc.InitRTOms, cc.MaxRTOms, sc.InitRTOms, sc.MaxRTOms = p.InitMs, p.MaxMs, p.InitMs, p.MaxMs
	ccache, scache := dtlcp.NewLRUSessionCache(4), dtlcp.NewLRUSessionCache(4)
	res := &c19Out{}
	conns := 1
	if p.Resumed {
		conns = 2
	}
	var unf []string
	ConfigSkew = 0
	if p.MinuteEdge {
		ConfigSkew = 59600 * time.Millisecond
	}
	defer func() { ConfigSkew = 0 }()
	for conn := 0; conn < conns; conn++ {
		if p.Declined && conn == conns-1 {
			// the other CBC/GCM suite of the same key exchange, enabled on the server all along
			other := map[uint16]uint16{ECC_GCM: ECC_CBC, ECC_CBC: ECC_GCM, ECDHE_GCM: ECDHE_CBC, ECDHE_CBC: ECDHE_GCM}[p.Suite]
			cc2, sc2 := *cc, *sc
			cc2.Suites, sc2.Suites = []uint16{other}, []uint16{p.Suite, other}
			cc, sc = &cc2, &sc2
		}
		w := NewWorld(c.Seed+uint64(conn), src)
		w.K.MaxElapsed = 400 * time.Second
		w.K.MaxSteps = 60000 // a handshake with three faults takes a few hundred steps; two ends answering each other for ever are cut short here
		if p.WallAhead {
			w.K.SetClock(time.Date(2031, 3, 1, 0, 0, 0, 0, time.UTC))
		}
		env := NewEnv(w)
		env.DCaches["c"], env.DCaches["s"] = ccache, scache
		pair := NewPair(DTLCP, env, cc, sc, fmt.Sprintf("c%d", conn), fmt.Sprintf("s%d", conn), "client:1", "server:443")
		if p.Lat0 {
			pair.Net.Latency = 0
		}
		if conn == conns-1 {
			pair.Net.Namer = c19Datagram
			pair.Net.SetPlan(plan)
		}
		out := &HSOut{}
		SpawnHandshakeEcho(w, pair, EchoOpts{Echo: true, C2S: payload(src, 200, 1), S2C: payload(src, 300, 2), SrvReadFrom: p.SrvReadFrom && conn == conns-1}, out, "")
		res.reason, unf = w.Run()
		w.Finish(r, sigp)
		out.Collect(pair)
		res.o, res.w, res.pair = out, w, pair
		if conn < conns-1 && (res.reason != vs.Done || out.CErr != nil || out.SErr != nil) {
			res.setup = fmt.Sprintf("fault-free first connection failed: %s %v %v", res.reason, out.CErr, out.SErr)
			return res
		}
	}
	for _, f := range res.pair.Net.Fired() {
		if f {
			res.fired++
		}
	}
	res.desc = c19Describe(res.pair.Net, plan)
	k := res.fired
	bound := time.Duration((1<<uint(k))-1)*time.Second + 1500*time.Millisecond
	if p.InitMs > 0 {
		// the configured schedule: initial timeout doubling up to the configured maximum; these plans only lose
		// datagrams, so little slack is needed
		bound = 300 * time.Millisecond
		t := time.Duration(p.InitMs) * time.Millisecond
		for i := 0; i < k; i++ {
			bound += t
			if t *= 2; t > time.Duration(p.MaxMs)*time.Millisecond {
				t = time.Duration(p.MaxMs) * time.Millisecond
			}
		}
	}
	o := res.o
	res.detail = fmt.Sprintf("faults %v (fired %d of %d): run %s, client err=%v done at %v, server err=%v done at %v, read-deadline expiries %d, datagrams c2s=%d s2c=%d, unfinished %v", res.desc, k, len(plan), res.reason, o.CErr, o.CDone, o.SErr, o.SDone, res.w.K.Timeouts, res.pair.Net.NSent[0], res.pair.Net.NSent[1], unf)
	switch {
	case o.CEnded && o.SEnded && o.CErr == nil && o.SErr == nil:
		if o.CDone > bound || o.SDone > bound {
			res.class = "too-slow"
			if p.InitMs > 0 {
				res.class = fmt.Sprintf("too-slow(rto=%d..%d)", p.InitMs, p.MaxMs)
			}
			res.detail = fmt.Sprintf("completed later than %v allowed for %d faults; ", bound, k) + res.detail
		} else if d := o.CheckAgreement(); d != "" {
			res.class, res.detail = "disagree", d+"; "+res.detail
		} else if d := o.CheckEcho(); d != "" {
			res.class, res.detail = "echo-failed", d+"; "+res.detail
		} else if k == 0 && res.w.K.Timeouts > 0 {
			res.class = "timer-expired-without-fault"
		}
	case !(o.CEnded && o.SEnded):
		res.class = "handshake-stuck"
	default:
		res.class = "handshake-failed"
	}
	return res
}

func (c19) Run(c *Case, src *vs.Src) *Result {
	r := &Result{}
	p := &c19Params{}
	if err := json.Unmarshal(c.P, p); err != nil {
		r.Infra = "bad params: " + err.Error()
		return r
	}
	if p.Plan == nil {
		slots := c19Slots(p.Resumed)
		used := map[string]bool{}
		for tries := 0; len(p.Plan) < p.K && tries < 64; tries++ {
			sl := slots[src.Intn(len(slots))]
			name := sl.name
			if src.Bool(1, 4) {
				name = strings.Replace(name, "#1", "#2", 1) // the first retransmission
			}
			if used[name] {
				continue
			}
			used[name] = true
			p.Plan = append(p.Plan, c19Fault(sl.dir, name, c19Kinds[src.Intn(len(c19Kinds))]))
		}
	}
	r.Sample = p
	mode := "full"
	if p.Resumed && !p.Declined {
		mode = "resumed"
	}
	if p.PMTUC != 0 {
		mode += " fragmented-hello"
	}
	sigp := "C19 " + mode
	res := c19RunPlan(c, src, p, p.Plan, r, sigp)
	r.Key = hashKey(p.Suite, p.Auth, p.Resumed, p.InitMs, p.MaxMs, p.WallAhead, p.MinuteEdge, p.Declined, p.SrvReadFrom, p.PMTUC, planSig(p.Plan))
	if res.setup != "" {
		r.Violate("setup", sigp+" setup-failed", "%s", res.setup)
		return r
	}
	for i, f := range res.pair.Net.Fired() {
		if f {
			r.Stat("fired_"+p.Plan[i].Kind, 1)
		}
	}
	r.Trivial = res.fired < len(p.Plan)
	r.Outcome = fmt.Sprintf("%s %s timeouts=%d", res.reason, res.class, res.w.K.Timeouts)
	if res.class == "" {
		r.Stat("completed", 1)
		if p.Resumed && !res.o.CCS.Resumed {
			r.Stat("fell_back_to_full", 1)
		}
		return r
	}
	// A failing multi-fault plan is reduced to its minimal failing sub-plans (singles, then pairs), each
	// tried alone with the same seeds. A failing plan that contains a copy of an early flight delayed
	// past the retransmission timeout is tested once more with that copy lost instead of late: if that
	// succeeds, the late arrival ("stale copy") is the cause and names the signature.
	seedCtr := uint64(100)
	sub := func(plan []simnet.DFault) *c19Out {
		seedCtr++
		return c19RunPlan(c, vs.NewSrc(c.Seed+seedCtr, nil), p, plan, r, sigp)
	}
	report := func(plan []simnet.DFault, res *c19Out) {
		for i, f := range plan {
			if f.Kind != simnet.FDelay || f.P < int64(time.Second) || len(plan) < 2 {
				continue
			}
			fl := f.Name
			if j := strings.Index(fl, "#"); j > 0 {
				fl = fl[:j]
			}
			if fl != "CH0" && fl != "CH1" && fl != "HVR" {
				continue
			}
			alt := append([]simnet.DFault(nil), plan...)
			alt[i] = c19Fault(f.Dir, f.Name, simnet.FDrop)
			if a := sub(alt); a.class == "" && a.setup == "" {
				r.Violate(res.class, fmt.Sprintf("%s stale-copy(%s) %s", sigp, fl, res.class), "a copy of %s delayed past the retransmission timeout arrives later and breaks the handshake (the same plan with that copy lost succeeds); %s", fl, res.detail)
				return
			}
		}
		r.Violate(res.class, fmt.Sprintf("%s %s %s", sigp, strings.Join(res.desc, " + "), res.class), "%s", res.detail)
	}
	n := len(p.Plan)
	explained := false
	failsAlone := make([]bool, n)
	if n > 1 {
		for i := range p.Plan {
			one := []simnet.DFault{p.Plan[i]}
			if s1 := sub(one); s1.class != "" && s1.setup == "" && s1.fired == 1 {
				failsAlone[i], explained = true, true
				report(one, s1)
			}
		}
	}
	if n > 2 {
		for i := 0; i < n; i++ {
			for j := i + 1; j < n; j++ {
				if failsAlone[i] || failsAlone[j] {
					continue
				}
				two := []simnet.DFault{p.Plan[i], p.Plan[j]}
				if s2 := sub(two); s2.class != "" && s2.setup == "" && s2.fired == 2 {
					explained = true
					report(two, s2)
				}
			}
		}
	}
	if !explained {
		report(p.Plan, res)
	}
	return r
}
