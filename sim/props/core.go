// Package props holds one workload + oracle per property (cNN.go) and the
// scaffolding they share.
package props

import (
	"crypto/sha256"
	"encoding/binary"
	"encoding/hex"
	"encoding/json"
	"fmt"
	"sort"
	"strings"
	"time"

	"gitee.com/Trisia/gotlcp/vs"
)

// Case is one simulated run: explicit parameters plus the choice tape. A Case
// serialised to JSON is the replay file.
type Case struct {
	Prop  string          `json:"prop"`
	Index int             `json:"index"`
	Name  string          `json:"name"`
	P     json.RawMessage `json:"params,omitempty"`
	Seed  uint64          `json:"seed"`
	Tape  []uint32        `json:"tape,omitempty"`
	// Filled in when a violation is reported.
	Violation *Violation `json:"violation,omitempty"`
	Note      string     `json:"note,omitempty"`
}

// Violation describes a property violation found in one run.
type Violation struct {
	Class  string `json:"class"`  // short and stable, e.g. "panic", "deadlock", "both-complete-differ"
	Sig    string `json:"sig"`    // canonical signature used for known-finding matching
	Detail string `json:"detail"` // free text for humans
}

// Result is what a run reports back.
type Result struct {
	Index     int            `json:"i"`
	Name      string         `json:"name"`
	V         []Violation    `json:"v,omitempty"`
	Infra     string         `json:"infra,omitempty"` // harness trouble (exit 2), never a violation
	Key       string         `json:"key"`             // distinctness key
	Trivial   bool           `json:"trivial,omitempty"`
	Outcome   string         `json:"outcome"`
	Stats     map[string]int `json:"stats,omitempty"`
	SimNs     int64          `json:"sim_ns"`
	Steps     int            `json:"steps"`
	Trace     string         `json:"trace"`
	Tape      []uint32       `json:"tape,omitempty"`
	Sample    interface{}    `json:"sample,omitempty"`
	WallUs    int64          `json:"wall_us"`
	RaceBytes int            `json:"race_bytes,omitempty"`
}

func (r *Result) Stat(k string, n int) {
	if r.Stats == nil {
		r.Stats = map[string]int{}
	}
	r.Stats[k] += n
}

func (r *Result) Violate(class, sig, detail string, a ...interface{}) {
	r.V = append(r.V, Violation{Class: class, Sig: sig, Detail: fmt.Sprintf(detail, a...)})
}

// Prop is the interface every property check implements.
type Prop interface {
	ID() string
	Level() string   // exploration | fault_enumeration
	Rule() string    // how cases are generated and what makes one distinct / non-trivial
	Count(tier string) int
	// Make builds case i (deterministically from seed and i).
	Make(tier string, seed uint64, i int) *Case
	// Run executes one case.
	Run(c *Case, src *vs.Src) *Result
	// Real / Stub describe which components ran real code.
	Components() (real, stub []string)
	Assumptions() []string
}

var registry = map[string]Prop{}

func Register(p Prop) { registry[p.ID()] = p }
func Get(id string) Prop { return registry[id] }
func IDs() []string {
	var ids []string
	for k := range registry {
		ids = append(ids, k)
	}
	sort.Strings(ids)
	return ids
}

// CaseSeed derives the per-case seed.
func CaseSeed(seed uint64, prop string, i int) uint64 {
	h := sha256.Sum256([]byte(fmt.Sprintf("%d/%s/%d", seed, prop, i)))
	return binary.BigEndian.Uint64(h[:8])
}

// Execute runs a case with a fresh source and fills in the bookkeeping fields.
func Execute(p Prop, c *Case, strict, padZero bool) *Result {
	src := vs.NewSrc(c.Seed, c.Tape)
	src.Strict = strict
	if padZero {
		src.PadZero()
	}
	t0 := time.Now()
	r := runGuarded(p, c, src)
	r.WallUs = time.Since(t0).Microseconds()
	r.Index = c.Index
	if r.Name == "" {
		r.Name = c.Name
	}
	r.Tape = src.Log
	if strict && (src.Div || !src.Exhausted()) && r.Infra == "" {
		r.Infra = "replay diverged from the recorded tape"
	}
	return r
}

func runGuarded(p Prop, c *Case, src *vs.Src) (r *Result) {
	defer func() {
		if e := recover(); e != nil {
			h, ok := e.(HangPanic)
			if !ok {
				panic(e)
			}
			r = &Result{Outcome: "watchdog"}
			msg := fmt.Sprintf("task %s did not yield within the wall-clock watchdog (unfinished %v)", h.Task, h.Unfinished)
			if p.ID() == "C09" {
				// for C09 a task that never yields is the finding itself (confirmed by re-execution in the driver)
				r.Violate("spin", "C09 spin", "%s", msg)
			} else {
				r.Infra = msg
			}
		}
	}()
	return p.Run(c, src)
}

func mustJSON(v interface{}) json.RawMessage {
	b, err := json.Marshal(v)
	if err != nil {
		panic(err)
	}
	return b
}

func hashKey(parts ...interface{}) string {
	h := sha256.New()
	for _, p := range parts {
		fmt.Fprintf(h, "%v|", p)
	}
	return hex.EncodeToString(h.Sum(nil)[:8])
}

// ---------------------------------------------------------------------------
// deterministic randomness handed to the library (Config.Rand)

// DRand is a deterministic io.Reader. One-byte reads (gmsm's
// randutil.MaybeReadByte, which consumes a byte only sometimes) return a
// constant and do not advance the stream.
type DRand struct {
	key [32]byte
	ctr uint64
	N   int // bytes handed out
}

func NewDRand(seed uint64, name string) *DRand {
	return &DRand{key: sha256.Sum256([]byte(fmt.Sprintf("%d/%s", seed, name)))}
}

//go:norace
func (d *DRand) Read(p []byte) (int, error) {
	if len(p) == 1 {
		p[0] = 0x5a
		return 1, nil
	}
	for off := 0; off < len(p); {
		var b [40]byte
		copy(b[:], d.key[:])
		binary.BigEndian.PutUint64(b[32:], d.ctr)
		d.ctr++
		h := sha256.Sum256(b[:])
		off += copy(p[off:], h[:])
	}
	d.N += len(p)
	return len(p), nil
}

// ---------------------------------------------------------------------------
// world: kernel + tasks + collected observations

type World struct {
	K      *vs.Kernel
	Src    *vs.Src
	Seed   uint64
	Reason string
	rands  map[string]*DRand
}

func NewWorld(seed uint64, src *vs.Src) *World {
	return &World{K: vs.New(src), Src: src, Seed: seed, rands: map[string]*DRand{}}
}

// Rand returns the deterministic random stream of an endpoint (create before the run).
func (w *World) Rand(name string) *DRand {
	if r, ok := w.rands[name]; ok {
		return r
	}
	r := NewDRand(w.Seed, name)
	w.rands[name] = r
	return r
}

func (w *World) Go(name string, f func()) *vs.Task { return w.K.Spawn(name, f) }

// Run runs the kernel to completion and shuts it down. It returns the kernel's
// verdict (vs.Done, vs.Deadlock, vs.Budget, vs.Hang) and the names of tasks
// that had not finished.
func (w *World) Run() (string, []string) {
	reason := w.K.Run()
	unf := w.K.Unfinished()
	w.K.Shutdown()
	w.Reason = reason
	if reason == vs.Hang {
		// a task is still running (or stuck) somewhere and may hold the library's locks: nothing of
		// this run may be touched any more. Unwind to Execute.
		name := "?"
		if w.K.Hung != nil {
			name = w.K.Hung.Name
		}
		panic(HangPanic{Task: name, Unfinished: unf})
	}
	return reason, unf
}

// HangPanic unwinds a property's Run when the wall-clock watchdog expired.
type HangPanic struct {
	Task       string
	Unfinished []string
}

// Finish fills the generic parts of a result from the finished world:
// panics become violations, hangs in harness code become infra errors.
func (w *World) Finish(r *Result, sigPrefix string) {
	r.SimNs = int64(w.K.Elapsed())
	r.Steps = w.K.Steps
	r.Trace = fmt.Sprintf("%016x", w.K.Trace())
	for _, t := range w.K.Tasks() {
		if t.Panic != nil {
			st := string(t.Stack)
			r.Violate("panic", sigPrefix+" panic "+panicSite(st), "task %s panicked: %v\n%s", t.Name, t.Panic, trimStack(st))
		}
	}
	if w.Reason == vs.Hang {
		name := "?"
		if w.K.Hung != nil {
			name = w.K.Hung.Name
		}
		r.Infra = "task " + name + " did not yield within the wall-clock watchdog"
	}
}

// panicSite extracts the name of the first library function on the panicking stack.
func panicSite(stack string) string {
	const pfx = "gitee.com/Trisia/gotlcp/"
	for _, l := range strings.Split(stack, "\n") {
		l = strings.TrimSpace(l)
		if strings.HasPrefix(l, pfx) && !strings.HasPrefix(l, pfx+"vs.") {
			s := l[len(pfx):]
			if j := strings.LastIndex(s, "("); j > 0 {
				s = s[:j]
			}
			return s
		}
	}
	return "unknown"
}

func trimStack(s string) string {
	lines := strings.Split(s, "\n")
	if len(lines) > 40 {
		lines = lines[:40]
	}
	return strings.Join(lines, "\n")
}

// pick helpers over the source
func pickU16(src *vs.Src, xs []uint16) uint16 { return xs[src.Intn(len(xs))] }
func pickStr(src *vs.Src, xs []string) string { return xs[src.Intn(len(xs))] }
func pickInt(src *vs.Src, xs []int) int       { return xs[src.Intn(len(xs))] }
