package props

import (
	"bytes"
	"encoding/json"
	"fmt"
	"os"
	"sync"
	"time"

	"gitee.com/Trisia/gotlcp/dtlcp"
	"gitee.com/Trisia/gotlcp/tlcp"
	"gitee.com/Trisia/gotlcp/vs"

	"verifsim/ref"
	"verifsim/simnet"
)

// C03 — tampering with a handshake never yields two completed endpoints that differ.
type c03 struct{}

func init() { Register(c03{}) }

type c03Mode struct {
	Stack   string `json:"stack"`
	Suite   uint16 `json:"suite"`
	Auth    bool   `json:"auth"`
	Resumed bool   `json:"resumed"`
	PMTU    int    `json:"pmtu,omitempty"` // datagram stack: path MTU of both ends (small: the flights are fragmented)
	// TCA: the client's configuration names trusted CAs (Config.TrustedCAIndications): its hello carries the
	// trusted_ca_keys extension; every byte position of that hello is tried, also in the quick tier
	TCA bool `json:"tca,omitempty"`
}

type c03Params struct {
	c03Mode
	// stream stack: record faults; datagram stack: datagram faults
	RF []simnet.RFault `json:"rf,omitempty"`
	DF []simnet.DFault `json:"df,omitempty"`
	K  int             `json:"k,omitempty"` // seeded multi-fault plan of this size when no explicit fault is given
}

func (c03) ID() string    { return "C03" }
func (c03) Level() string { return "fault_enumeration" }
func (c03) Rule() string {
	return "a man in the middle between two real endpoints applies one fault to the handshake: XOR with 0x01 / 0x80 / 0xFF at a byte position of a record (quick: a stratified sample of positions of every record, thorough: every position), drop, duplicate, swap with the next, truncate, or inject a record of any content type before any record (stream stack); corrupt at a position, drop, duplicate, delay or truncate a datagram (datagram stack, under virtual time so that retransmission can repair); plus seeded multi-fault plans (thorough); full and resumed handshakes, four suites, with and without client authentication, and one datagram mode with a path MTU of 400 (fragmented flights; the bytes of every fragment header are always among the positions tried). An untampered run with the same seeds is the baseline. Oracle: no task panics, and it is never the case that both endpoints complete unless version, suite, ALPN, resumption flag and session id equal the baseline's, the Finished values both sides recorded agree, (stream stack) the handshake and ChangeCipherSpec payloads delivered to each endpoint are byte for byte what the other sent - also tried with hellos re-encoded to the same fields (unknown extension appended, extensions exchanged, bytes behind the extensions) - and (datagram stack) no completion without a timer expiry when a payload byte of a handshake or ChangeCipherSpec record (hellos of the cookie exchange excepted: they are re-sent on a fresh HelloVerifyRequest; headers of proper fragments excepted: they are framing) was changed. Also structured rewrites of other messages in transit, lengths fixed up: ChangeCipherSpec lengthened by a byte, the list of a Certificate message cut to its first certificate or emptied (stream: tried on every record; datagram: on every datagram, with the same no-completion-without-a-timer rule). Two more modes (one per stack) with a client that names trusted CAs (trusted_ca_keys extension in its hello): every byte position of that hello is tried in the quick tier too. distinct = distinct (mode, fault); non-trivial = the fault hit a record / datagram of the handshake"
}
func (c03) Components() (real, stub []string) {
	return []string{"tlcp/dtlcp client+server (instrumented): transcript hashing, Finished, record layer, state machines, retransmission"},
		[]string{"transport with man in the middle (record-aware for the stream stack, datagram fault plan for the datagram stack)", "clock, randomness, scheduler"}
}
func (c03) Assumptions() []string {
	return []string{"record headers are not part of the comparison (the version bytes of the first records are unauthenticated by design, as the property says)", "on the datagram stack a damaged message may be dropped and its retransmission accepted; equality of views is judged by the negotiated state and the recorded Finished values"}
}

var c03Modes = []c03Mode{
	{TLCP, ECC_GCM, false, false, 0, false}, {TLCP, ECC_CBC, true, false, 0, false}, {TLCP, ECDHE_GCM, true, false, 0, false}, {TLCP, ECDHE_CBC, true, false, 0, false},
	{TLCP, ECC_GCM, false, true, 0, false}, {TLCP, ECDHE_CBC, true, true, 0, false},
	{DTLCP, ECC_GCM, false, false, 0, false}, {DTLCP, ECDHE_CBC, true, false, 0, false}, {DTLCP, ECC_CBC, true, true, 0, false},
	{DTLCP, ECC_GCM, false, false, 400, false},
	{TLCP, ECC_GCM, false, false, 0, true}, {DTLCP, ECC_CBC, false, false, 0, true},
}

var (
	c03Once  [2]sync.Once
	c03Lists [2][]c03Params
)

// c03Baseline runs the untampered handshake of a mode and returns the record lengths per direction (stream)
// or datagram lengths per direction (datagram) of the connection under attack.
func c03Baseline(m c03Mode) ([2][]int, [2][][]byte) {
	p := &c03Params{c03Mode: m}
	c := &Case{Seed: 4242}
	res := c03Execute(c, vs.NewSrc(1, nil), p, &Result{}, true)
	return res.lens, res.sentUnits
}

// c03CCSOffsets lists the offsets in a datagram that are always tried: the payload of a ChangeCipherSpec record and
// the twelve bytes of every unprotected handshake (fragment) header (type, total length, message_seq, fragment
// offset, fragment length).
func c03CCSOffsets(d []byte) (offs []int) {
	for q := 0; q+13 <= len(d); {
		n := int(d[q+11])<<8 | int(d[q+12])
		if d[q] == 20 {
			for i := 0; i < n; i++ {
				offs = append(offs, q+13+i)
			}
		}
		if d[q] == 22 && d[q+3] == 0 && d[q+4] == 0 {
			for i := 0; i < 12 && i < n; i++ {
				offs = append(offs, q+13+i)
			}
		}
		q += 13 + n
	}
	return
}

func c03List(tier string) []c03Params {
	ti := 0
	if tier == "thorough" {
		ti = 1
	}
	c03Once[ti].Do(func() {
		var out []c03Params
		for _, m := range c03Modes {
			lens, units := c03Baseline(m)
			for dir := 0; dir < 2; dir++ {
				for rec, L := range lens[dir] {
					pos := func(off int) bool {
						if ti == 1 || (m.TCA && dir == 0 && rec == 0) {
							return true
						}
						return off < 12 || off >= L-6 || off%9 == rec%9
					}
					if m.Stack == TLCP {
						total := L + 5
						for off := 0; off < total; off++ {
							if !pos(off) {
								continue
							}
							masks := []byte{0x01}
							if ti == 1 || off%4 == 0 {
								masks = []byte{0x01, 0x80, 0xff}
							}
							for _, mk := range masks {
								out = append(out, c03Params{c03Mode: m, RF: []simnet.RFault{{Dir: dir, N: rec, Kind: simnet.RFlip, Off: off, Mask: mk}}})
							}
						}
						for _, k := range []string{simnet.RDrop, simnet.RDup, simnet.RSwap} {
							out = append(out, c03Params{c03Mode: m, RF: []simnet.RFault{{Dir: dir, N: rec, Kind: k}}})
						}
						for _, keep := range []int{1, 4, 5, 6, total / 2, total - 1} {
							if keep > 0 && keep < total {
								out = append(out, c03Params{c03Mode: m, RF: []simnet.RFault{{Dir: dir, N: rec, Kind: simnet.RTrunc, Keep: keep}}})
							}
						}
						if rec == 0 {
							// the hello of this direction re-encoded: same fields, other bytes
							for how := 0; how < 3; how++ {
								out = append(out, c03Params{c03Mode: m, RF: []simnet.RFault{{Dir: dir, N: 0, Kind: simnet.RRewrite, Off: how}}})
							}
						}
						// structured rewrites of other messages (a record they do not apply to: trivial)
						for how := 3; how <= 5; how++ {
							out = append(out, c03Params{c03Mode: m, RF: []simnet.RFault{{Dir: dir, N: rec, Kind: simnet.RRewrite, Off: how}}})
						}
						for _, typ := range []byte{20, 21, 22, 23, 24} {
							inj := [][]byte{{typ, 1, 1, 0, 1, 1}, {typ, 1, 1, 0, 2, 1, 0}, {typ, 1, 1, 0, 0}, append([]byte{typ, 1, 1, 0, 8}, 20, 0, 0, 4, 1, 2, 3, 4)}
							for _, b := range inj {
								out = append(out, c03Params{c03Mode: m, RF: []simnet.RFault{{Dir: dir, N: rec, Kind: simnet.RInject, Data: b}}})
							}
						}
					} else {
						ccs := map[int]bool{}
						if rec < len(units[dir]) {
							for _, o := range c03CCSOffsets(units[dir][rec]) {
								ccs[o] = true
							}
						}
						for off := 0; off < L; off++ {
							if ti == 0 && !(off < 30 || off%13 == rec%13 || ccs[off]) && !(m.TCA && dir == 0 && rec <= 1) {
								continue
							}
							for _, mk := range []byte{0x01, 0xff} {
								out = append(out, c03Params{c03Mode: m, DF: []simnet.DFault{{Dir: dir, N: rec, Kind: simnet.FCorrupt, P: int64(off), Mask: mk}}})
							}
						}
						for how := 3; how <= 5; how++ {
							out = append(out, c03Params{c03Mode: m, DF: []simnet.DFault{{Dir: dir, N: rec, Kind: simnet.FRewrite, P: int64(how)}}})
						}
						for _, k := range []string{simnet.FDrop, simnet.FDup} {
							out = append(out, c03Params{c03Mode: m, DF: []simnet.DFault{{Dir: dir, N: rec, Kind: k}}})
						}
						out = append(out, c03Params{c03Mode: m, DF: []simnet.DFault{{Dir: dir, N: rec, Kind: simnet.FDelay, P: int64(3 * time.Millisecond)}}})
						for _, keep := range []int{1, 12, 13, 14, 25, L / 2, L - 1} {
							if keep > 0 && keep < L {
								out = append(out, c03Params{c03Mode: m, DF: []simnet.DFault{{Dir: dir, N: rec, Kind: simnet.FTrunc, P: int64(keep)}}})
							}
						}
					}
				}
			}
			if ti == 1 {
				for i := 0; i < 1500; i++ {
					out = append(out, c03Params{c03Mode: m, K: 2 + i%2})
				}
			}
		}
		c03Lists[ti] = out
	})
	return c03Lists[ti]
}

func (c03) Count(tier string) int { return len(c03List(tier)) }
func (c03) Make(tier string, seed uint64, i int) *Case {
	return &Case{Prop: "C03", Index: i, Seed: CaseSeed(seed, "C03", i), P: mustJSON(c03List(tier)[i])}
}

type c03Out struct {
	out       *HSOut
	reason    string
	unf       []string
	lens      [2][]int
	sid       []byte
	hsStream  [2][2][]byte // [sent/delivered][dir] handshake + CCS payload bytes (stream stack)
	allFired  bool
	panicked  bool
	timeouts  int         // read deadlines that expired on the attacked connection (no retransmission without one)
	sentUnits [2][][]byte // datagrams as sent on the attacked connection
	allUnits  []*simnet.Dgram // the same, both directions, in send order
}

// c03Execute runs the (possibly resumed) handshake with or without the faults.
func c03Execute(c *Case, src *vs.Src, p *c03Params, r *Result, baseline bool) *c03Out {
	cc := &EPConf{Suites: []uint16{p.Suite}, ServerName: "server.test", Cache: "c", ALPN: []string{"h2", "foo"}, PMTU: p.PMTU, TrustedCAs: p.TCA}
	sc := &EPConf{Suites: []uint16{p.Suite}, Certs: []string{"server_sig", "server_enc"}, ClientCAs: []string{"ca1"}, Cache: "s", ALPN: []string{"foo"}, PMTU: p.PMTU}
	if p.Auth || IsECDHE(p.Suite) {
		cc.Certs = []string{"client_sig", "client_enc"}
	}
	if p.Auth {
		sc.Auth = 4
	}
	tcC, tcS := tlcp.NewLRUSessionCache(8), tlcp.NewLRUSessionCache(8)
	dcC, dcS := dtlcp.NewLRUSessionCache(8), dtlcp.NewLRUSessionCache(8)
	res := &c03Out{}
	conns := 1
	if p.Resumed {
		conns = 2
	}
	sigp := "C03 " + p.Stack
	for conn := 0; conn < conns; conn++ {
		// the schedule source of the attacked connection is fresh and seeded identically for baseline and
		// attack, so that both runs are the same up to the fault
		s2 := vs.NewSrc(c.Seed+uint64(conn), nil)
		w := NewWorld(c.Seed+uint64(conn), s2)
		w.K.MaxElapsed = 16 * time.Second // room for the retransmissions a single fault can cost (1+2+4 s) and the echo
		env := NewEnv(w)
		env.TCaches["c"], env.TCaches["s"], env.DCaches["c"], env.DCaches["s"] = tcC, tcS, dcC, dcS
		pair := NewPair(p.Stack, env, cc, sc, fmt.Sprintf("c%d", conn), fmt.Sprintf("s%d", conn), "client:1", "server:443")
		last := conn == conns-1
		var mitm [2]*simnet.RecordMITM
		if last && !baseline {
			if pair.Pipe != nil {
				for d := 0; d < 2; d++ {
					mitm[d] = simnet.NewRecordMITM(d, p.RF)
					pair.Pipe.SetFilter(d, mitm[d])
				}
			} else {
				pair.Net.SetPlan(p.DF)
			}
		}
		out := &HSOut{}
		SpawnHandshakeEcho(w, pair, EchoOpts{Echo: true, C2S: []byte("client data"), S2C: []byte("server data")}, out, "")
		res.reason, res.unf = w.Run()
		np := len(r.V)
		w.Finish(r, sigp)
		res.panicked = res.panicked || len(r.V) > np
		out.Collect(pair)
		res.out = out
		if !last {
			if res.reason != vs.Done || out.CErr != nil || out.SErr != nil {
				res.reason = "setup-failed"
				return res
			}
			continue
		}
		// measurements on the attacked connection
		if pair.Net != nil && os.Getenv("VERIF_DEBUG") != "" && !baseline {
			for _, d := range pair.Net.SentLog() {
				fmt.Fprintf(os.Stderr, "dgram dir=%d t=%v len=%d dropped=%v %x\n", d.Dir, d.SentAt, len(d.Data), d.Dropped, d.Data[:min(len(d.Data), 48)])
			}
			fmt.Fprintf(os.Stderr, "timeouts=%d elapsed=%v cerr=%v serr=%v\n", w.K.Timeouts, w.K.Elapsed(), out.CErr, out.SErr)
		}
		units := pair.WireUnits(true)
		res.timeouts = w.K.Timeouts
		res.sentUnits = units
		if pair.Net != nil {
			res.allUnits = pair.Net.SentLog()
		}
		for d := 0; d < 2; d++ {
			if pair.Pipe != nil {
				recs, _ := ref.ParseRecords(units[d][0], false)
				for _, rc := range recs {
					res.lens[d] = append(res.lens[d], len(rc.Frag))
				}
			} else {
				for _, u := range units[d] {
					res.lens[d] = append(res.lens[d], len(u))
				}
			}
		}
		if pair.Pipe != nil {
			del := pair.WireUnits(false)
			for k, uu := range [2][2][][]byte{units, del} {
				for d := 0; d < 2; d++ {
					recs, _ := ref.ParseRecords(uu[d][0], false)
					for _, rc := range recs {
						if rc.Type == ref.RecHandshake || rc.Type == ref.RecCCS {
							res.hsStream[k][d] = append(res.hsStream[k][d], rc.Type)
							res.hsStream[k][d] = append(res.hsStream[k][d], rc.Frag...)
						}
					}
				}
			}
			res.allFired = true
			for d := 0; d < 2; d++ {
				if mitm[d] != nil && !mitm[d].AllFired() {
					res.allFired = false
				}
			}
		} else {
			res.allFired = true
			for _, f := range pair.Net.Fired() {
				res.allFired = res.allFired && f
			}
		}
		_, sid, _, _ := c10Hellos(p.Stack == DTLCP, units)
		res.sid = sid
	}
	return res
}

func (c03) Run(c *Case, src *vs.Src) *Result {
	r := &Result{}
	p := &c03Params{}
	if err := json.Unmarshal(c.P, p); err != nil {
		r.Infra = "bad params: " + err.Error()
		return r
	}
	sigp := "C03 " + p.Stack
	base := c03Execute(c, src, p, r, true)
	if base.reason != vs.Done || base.out.CErr != nil || base.out.SErr != nil {
		r.Violate("baseline", sigp+" baseline-failed", "the untampered handshake failed: %s %v %v", base.reason, base.out.CErr, base.out.SErr)
		return r
	}
	if p.RF == nil && p.DF == nil {
		// seeded multi-fault plan over the records / datagrams of the baseline
		for i := 0; i < p.K; i++ {
			dir := src.Intn(2)
			if len(base.lens[dir]) == 0 {
				continue
			}
			rec := src.Intn(len(base.lens[dir]))
			L := base.lens[dir][rec]
			if p.Stack == TLCP {
				f := simnet.RFault{Dir: dir, N: rec}
				switch src.Intn(6) {
				case 0:
					f.Kind = simnet.RDrop
				case 1:
					f.Kind = simnet.RDup
				case 2:
					f.Kind = simnet.RSwap
				default:
					f.Kind, f.Off, f.Mask = simnet.RFlip, src.Intn(L+5), []byte{1, 0x80, 0xff}[src.Intn(3)]
				}
				p.RF = append(p.RF, f)
			} else {
				f := simnet.DFault{Dir: dir, N: rec}
				switch src.Intn(6) {
				case 0:
					f.Kind = simnet.FDrop
				case 1:
					f.Kind = simnet.FDup
				case 2:
					f.Kind, f.P = simnet.FDelay, int64(3*time.Millisecond)
				default:
					f.Kind, f.P, f.Mask = simnet.FCorrupt, int64(src.Intn(L)), []byte{1, 0x80, 0xff}[src.Intn(3)]
				}
				p.DF = append(p.DF, f)
			}
		}
	}
	r.Sample = p
	pj, _ := json.Marshal(p)
	r.Key = hashKey(string(pj))
	att := c03Execute(c, src, p, r, false)
	r.Trivial = !att.allFired
	if att.reason == "setup-failed" {
		r.Violate("baseline", sigp+" setup-failed", "first connection of a resumed pair failed")
		return r
	}
	kind := "multi"
	if len(p.RF) == 1 {
		kind = p.RF[0].Kind
	} else if len(p.DF) == 1 {
		kind = p.DF[0].Kind
	}
	r.Stat("fault_"+kind, 1)
	o, b := att.out, base.out
	bothDone := att.reason == vs.Done && o.CEnded && o.SEnded && o.CErr == nil && o.SErr == nil && o.CCS.Done && o.SCS.Done
	r.Outcome = fmt.Sprintf("%s both=%v", kind, bothDone)
	if !bothDone {
		return r
	}
	r.Stat("both_completed_under_tampering", 1)
	fault := fmt.Sprintf("%+v%+v", p.RF, p.DF)
	if d := o.CheckAgreement(); d != "" {
		r.Violate("views-differ", sigp+" views-differ "+kind, "both endpoints completed but %s; fault %s", d, fault)
	}
	if o.CCS.Vers != b.CCS.Vers || o.CCS.Suite != b.CCS.Suite || o.CCS.ALPN != b.CCS.ALPN {
		r.Violate("downgrade", sigp+" differs-from-baseline "+kind, "both completed with version %04x suite %04x alpn %q, the untampered handshake negotiates %04x %04x %q; fault %s", o.CCS.Vers, o.CCS.Suite, o.CCS.ALPN, b.CCS.Vers, b.CCS.Suite, b.CCS.ALPN, fault)
	}
	if p.Stack == TLCP && o.CCS.Resumed != b.CCS.Resumed {
		r.Violate("downgrade", sigp+" resumption-differs "+kind, "both completed with resumed=%v, baseline resumed=%v; fault %s", o.CCS.Resumed, b.CCS.Resumed, fault)
	}
	if !equalDERs(o.CCS.Peer, b.CCS.Peer) || !equalDERs(o.SCS.Peer, b.SCS.Peer) {
		r.Violate("views-differ", sigp+" peer-certificates-differ "+kind, "peer certificate lists differ from the untampered handshake; fault %s", fault)
	}
	if p.Stack == DTLCP && len(p.DF) == 1 && p.DF[0].Kind == simnet.FRewrite && att.allFired && att.timeouts == 0 {
		// same rule for a structured rewrite (it changes the body of a ChangeCipherSpec or Certificate message)
		r.Violate("tampered-accepted", sigp+" rewritten-message-accepted-without-retransmission", "both endpoints completed without any timer expiring although datagram %d in direction %d was rewritten in transit (form %d): the rewritten message was accepted", p.DF[0].N, p.DF[0].Dir, p.DF[0].P)
	}
	if p.Stack == DTLCP && len(p.DF) == 1 && p.DF[0].Kind == simnet.FCorrupt && att.allFired && att.timeouts == 0 {
		// a datagram endpoint may drop a damaged message and accept its retransmission - but nothing is
		// retransmitted before a timer expires. Both completed, no timer expired: if the damaged byte lies in
		// the payload of a handshake or ChangeCipherSpec record (headers are exempt), that message was accepted
		// although it is not what the other side sent.
		f := p.DF[0]
		if f.N < len(att.sentUnits[f.Dir]) {
			d := att.sentUnits[f.Dir][f.N]
			off := int(f.P) % len(d)
			for q := 0; q+13 <= len(d); {
				n := int(d[q+11])<<8 | int(d[q+12])
				// ClientHello and HelloVerifyRequest are exempt: a hello that the cookie check refuses is answered by a
				// fresh HelloVerifyRequest and re-sent at once, without any timer
				cookiePhase := d[q] == 22 && n > 0 && q+13 < len(d) && d[q+4] == 0 && (d[q+13] == 1 || d[q+13] == 3)
				if cookiePhase && d[q+13] == 1 && !c03AnsweredByHVR(att.allUnits, f.Dir, f.N) {
					// the damaged ClientHello was not refused with a fresh HelloVerifyRequest: the server went on with it
					cookiePhase = false
				}
				// the header of a proper fragment (fragment length < message length) repeats what other fragments of
				// the message say as well; which copy the receiver goes by is framing, like the record header: the
				// reassembled message is what the transcript covers
				fragHeader := d[q] == 22 && d[q+4] == 0 && n >= 12 && off < q+13+12 &&
					(int(d[q+13+9])<<16|int(d[q+13+10])<<8|int(d[q+13+11])) < (int(d[q+13+1])<<16|int(d[q+13+2])<<8|int(d[q+13+3]))
				if (d[q] == 22 || d[q] == 20) && !cookiePhase && !fragHeader && off >= q+13 && off < q+13+n {
					r.Violate("tampered-accepted", sigp+" damaged-message-accepted-without-retransmission", "both endpoints completed without any timer expiring although byte %d of datagram %d in direction %d (payload of a record of type %d, epoch %d, %d bytes) was changed in transit (mask %#x): the damaged message was accepted", off, f.N, f.Dir, d[q], int(d[q+3])<<8|int(d[q+4]), n, f.Mask)
					break
				}
				q += 13 + n
			}
		}
	}
	if p.Stack == TLCP {
		if !bytes.Equal(att.sid, base.sid) && o.CCS.Resumed {
			r.Violate("views-differ", sigp+" session-id-differs "+kind, "session id %x, baseline %x", att.sid, base.sid)
		}
		for d := 0; d < 2; d++ {
			// what was delivered must begin with exactly what was sent; anything the attacker appends behind
			// the last handshake message of a direction reaches the receiver only after it has completed
			// (and is then a matter of C05/C09)
			sent, del := att.hsStream[0][d], att.hsStream[1][d]
			if len(del) < len(sent) || !bytes.Equal(del[:len(sent)], sent) {
				r.Violate("tampered-accepted", sigp+" tampered-handshake-bytes-accepted "+kind, "both endpoints completed although the handshake/ChangeCipherSpec payload delivered in direction %d (%d bytes) differs from what was sent (%d bytes); fault %s", d, len(att.hsStream[1][d]), len(att.hsStream[0][d]), fault)
			}
		}
	}
	return r
}

// c03AnsweredByHVR: is the first datagram the server sent after client datagram number n a HelloVerifyRequest?
func c03AnsweredByHVR(log []*simnet.Dgram, dir, n int) bool {
	seen := false
	for _, d := range log {
		if d.Dir == dir && d.Index == n {
			seen = true
			continue
		}
		if seen && d.Dir != dir {
			return len(d.Data) > 13 && d.Data[0] == 22 && d.Data[13] == 3
		}
	}
	return true // nothing came back at all: the hello was dropped
}
