package props

import (
	"bytes"
	"encoding/json"
	"fmt"
	"strings"
	"time"

	"gitee.com/Trisia/gotlcp/dtlcp"
	"gitee.com/Trisia/gotlcp/tlcp"
	"gitee.com/Trisia/gotlcp/vs"
	"github.com/anishathalye/porcupine"

	"verifsim/simnet"
)

// C11 — the session cache is a correct bounded LRU that never harms a live session.
type c11 struct{}

func init() { Register(c11{}) }

type c11Params struct {
	Extra int `json:"extra,omitempty"` // big: keys stored beyond the capacity
	Mode  string `json:"mode"`  // seq | conc | conn
	Stack string `json:"stack"` // which package's cache
	Cap   int    `json:"cap"`
	Ops   []c11Op `json:"ops,omitempty"`
	Tasks int    `json:"tasks,omitempty"`
	// conn mode
	ClientCap int   `json:"client_cap,omitempty"`
	ServerCap int   `json:"server_cap,omitempty"`
	Servers   int   `json:"servers,omitempty"`
	Visits    []int `json:"visits,omitempty"`
	// Par > 1: the visits run Par at a time, concurrently, through the same client cache (handshakes that hold a
	// session while others store, evict or delete). Ruin marks visits whose server never answers (tlcp): they
	// fail - and delete the session they offered - while the others are in flight.
	Par  int    `json:"par,omitempty"`
	Ruin []bool `json:"ruin,omitempty"`
}

type c11Op struct {
	Op  string `json:"op"` // put | del | get | last
	Key int    `json:"k"`
	Val int    `json:"v,omitempty"` // value id (put); a value id may be stored under several keys (aliasing)
}

func (c11) ID() string    { return "C11" }
func (c11) Level() string { return "exploration" }
func (c11) Rule() string {
	return "three layers, all seeded. seq: store / delete / lookup / lookup-most-recent sequences over <= 5 keys with capacities 1..4 (and larger), the same session object sometimes stored under two keys (as the client does), compared with a reference LRU after every operation: result, size <= capacity, and - through the hook - that no session still reachable under some key had its master secret changed. conc: 3-4 tasks issue operations on one cache under the vs kernel (pre-emption at the cache mutex), the history stamped with kernel sequence numbers is checked with porcupine against the same model; race build. conn: histories of honest connections between one client and 1-3 servers through client and server caches of capacity 1..3: every connection must succeed - also when 2-3 of them run concurrently through the same client cache while others fail and delete the session they offered. Capacities below 1 mean 64. One case in forty of the seq layer requests a large capacity (1024-5000) and stores capacity + 0..5 distinct keys: exactly the oldest surplus may be gone. distinct = distinct operation sequences / histories; non-trivial = an eviction or a deletion happened"
}
func (c11) Components() (real, stub []string) {
	return []string{"lruSessionCache of tlcp and dtlcp", "tlcp/dtlcp client+server (conn mode)", "Go race detector (conc mode)"},
		[]string{"scheduler, transport, randomness"}
}
func (c11) Assumptions() []string {
	return []string{"reference LRU: Put(k,v) inserts or replaces and makes k most recent, evicting the least recent entry when full; Put(k,nil) deletes k and nothing else; Get(k) makes k most recent; Get(\"\") returns the most recent value", "porcupine: an Unknown (timed-out) verdict is reported as infrastructure trouble, never as a pass or a violation"}
}
func (c11) Count(tier string) int {
	if tier == "thorough" {
		return 200000
	}
	return 6000
}
func (c11) Make(tier string, seed uint64, i int) *Case {
	return &Case{Prop: "C11", Index: i, Seed: CaseSeed(seed, "C11", i)}
}

func drawC11(src *vs.Src) *c11Params {
	p := &c11Params{Stack: pickStr(src, []string{TLCP, DTLCP})}
	switch src.Intn(10) {
	case 0, 1, 2, 3, 4, 5:
		p.Mode = "seq"
	case 6, 7:
		p.Mode = "conc"
	default:
		p.Mode = "conn"
	}
	if p.Mode == "seq" && src.Bool(1, 40) {
		// a large requested capacity: Cap+Extra distinct keys are stored; exactly the Extra oldest may be gone
		p.Mode = "big"
		p.Cap = pickInt(src, []int{1024, 1025, 1500, 3000, 5000})
		p.Extra = src.Intn(6)
		return p
	}
	switch p.Mode {
	case "seq", "conc":
		p.Cap = 1 + src.Intn(4)
		if src.Bool(1, 8) {
			p.Cap = 5 + src.Intn(60)
		}
		if src.Bool(1, 12) {
			p.Cap = -src.Intn(3) // 0, -1, -2: "smaller than 1 means the default capacity of 64"
		}
		n := 2 + src.Intn(14)
		if p.Mode == "conc" {
			p.Tasks = 3 + src.Intn(2)
			n = 6 + src.Intn(26)
		}
		nextVal := 1
		for i := 0; i < n; i++ {
			op := c11Op{Key: src.Intn(5)}
			switch src.Intn(10) {
			case 0, 1, 2, 3:
				op.Op = "put"
				if nextVal > 1 && src.Bool(1, 4) && p.Mode == "seq" {
					op.Val = 1 + src.Intn(nextVal-1) // alias: an object already stored (maybe under another key)
				} else {
					op.Val = nextVal
					nextVal++
				}
			case 4, 5:
				op.Op = "del"
			case 6:
				op.Op = "last"
			default:
				op.Op = "get"
			}
			p.Ops = append(p.Ops, op)
		}
	case "conn":
		p.ClientCap, p.ServerCap = 1+src.Intn(3), 1+src.Intn(3)
		p.Servers = 1 + src.Intn(3)
		n := 2 + src.Intn(5)
		for i := 0; i < n; i++ {
			p.Visits = append(p.Visits, src.Intn(p.Servers))
		}
		if src.Bool(1, 2) {
			p.Par = 2 + src.Intn(2)
			if src.Bool(1, 2) {
				p.ClientCap = 1 + src.Intn(16)
			}
			for i := 0; i < n; i++ {
				p.Visits = append(p.Visits, src.Intn(p.Servers))
				p.Ruin = append(p.Ruin, false)
			}
			for i := range p.Visits {
				if i >= len(p.Ruin) {
					p.Ruin = append(p.Ruin, false)
				}
				p.Ruin[i] = i > 0 && p.Stack == TLCP && src.Bool(1, 4)
			}
		}
	}
	return p
}

// ---- reference LRU ---------------------------------------------------------

type lruModel struct {
	cap  int
	keys []int // most recent first
	vals map[int]int
}

func (m *lruModel) touch(k int) {
	for i, x := range m.keys {
		if x == k {
			copy(m.keys[1:i+1], m.keys[:i])
			m.keys[0] = k
			return
		}
	}
}

func (m *lruModel) apply(op c11Op) (val int, ok bool) {
	_, present := m.vals[op.Key]
	switch op.Op {
	case "put":
		if present {
			m.vals[op.Key] = op.Val
			m.touch(op.Key)
			return 0, true
		}
		if len(m.keys) == m.cap {
			last := m.keys[len(m.keys)-1]
			m.keys = m.keys[:len(m.keys)-1]
			delete(m.vals, last)
		}
		m.keys = append([]int{op.Key}, m.keys...)
		m.vals[op.Key] = op.Val
		return 0, true
	case "del":
		if present {
			delete(m.vals, op.Key)
			for i, x := range m.keys {
				if x == op.Key {
					m.keys = append(m.keys[:i:i], m.keys[i+1:]...)
					break
				}
			}
		}
		return 0, true
	case "get":
		if !present {
			return 0, false
		}
		m.touch(op.Key)
		return m.vals[op.Key], true
	case "last":
		if len(m.keys) == 0 {
			return 0, false
		}
		return m.vals[m.keys[0]], true
	}
	return 0, false
}

func (m *lruModel) String() string {
	var b strings.Builder
	for _, k := range m.keys {
		fmt.Fprintf(&b, "%d=%d,", k, m.vals[k])
	}
	return b.String()
}

func parseLRU(s string, cap int) *lruModel {
	m := &lruModel{cap: c11EffCap(cap), vals: map[int]int{}}
	for _, kv := range strings.Split(s, ",") {
		var k, v int
		if _, err := fmt.Sscanf(kv, "%d=%d", &k, &v); err == nil {
			m.keys = append(m.keys, k)
			m.vals[k] = v
		}
	}
	return m
}

// ---- the cache under test, both stacks behind one face ----------------------

type c11Cache struct {
	t     tlcp.SessionCache
	d     dtlcp.SessionCache
	tvals map[int]*tlcp.SessionState
	dvals map[int]*dtlcp.SessionState
}

func newC11Cache(stack string, cap int) *c11Cache {
	c := &c11Cache{tvals: map[int]*tlcp.SessionState{}, dvals: map[int]*dtlcp.SessionState{}}
	if stack == TLCP {
		c.t = tlcp.NewLRUSessionCache(cap)
	} else {
		c.d = dtlcp.NewLRUSessionCache(cap)
	}
	return c
}

// c11EffCap: the documented meaning of the capacity argument.
func c11EffCap(cap int) int {
	if cap < 1 {
		return 64
	}
	return cap
}

func c11Master(v int) []byte { return bytes.Repeat([]byte{byte(v), byte(v >> 8), 0xC1, 0x1C}, 12) }
func c11Key(k int) string    { return fmt.Sprintf("key-%d", k) }

// prepare creates the session objects before the run (so that tasks do not share harness maps for writing).
func (c *c11Cache) prepare(ops []c11Op) {
	for _, op := range ops {
		if op.Op != "put" {
			continue
		}
		if c.t != nil && c.tvals[op.Val] == nil {
			c.tvals[op.Val] = tlcp.VerifNewSession([]byte{byte(op.Val)}, 0x0101, 0xe053, c11Master(op.Val))
		}
		if c.d != nil && c.dvals[op.Val] == nil {
			c.dvals[op.Val] = dtlcp.VerifNewSession([]byte{byte(op.Val)}, 0x0101, 0xe053, c11Master(op.Val))
		}
	}
}

// do performs one operation; it returns the value id found (0 for a nil session) and ok.
func (c *c11Cache) do(op c11Op) (int, bool) {
	key := c11Key(op.Key)
	idOf := func(id []byte) int {
		if len(id) == 1 {
			return int(id[0])
		}
		return 0
	}
	if c.t != nil {
		switch op.Op {
		case "put":
			c.t.Put(key, c.tvals[op.Val])
			return 0, true
		case "del":
			c.t.Put(key, nil)
			return 0, true
		case "last":
			key = ""
		}
		s, ok := c.t.Get(key)
		id, _, _, _, _ := tlcp.VerifSession(s)
		return idOf(id), ok
	}
	switch op.Op {
	case "put":
		c.d.Put(key, c.dvals[op.Val])
		return 0, true
	case "del":
		c.d.Put(key, nil)
		return 0, true
	case "last":
		key = ""
	}
	s, ok := c.d.Get(key)
	id, _, _, _, _ := dtlcp.VerifSession(s)
	return idOf(id), ok
}

func (c *c11Cache) master(v int) []byte {
	if c.t != nil {
		_, _, _, m, _ := tlcp.VerifSession(c.tvals[v])
		return m
	}
	_, _, _, m, _ := dtlcp.VerifSession(c.dvals[v])
	return m
}

func (c11) Run(c *Case, src *vs.Src) *Result {
	r := &Result{}
	var p *c11Params
	if c.P != nil {
		p = &c11Params{}
		if err := json.Unmarshal(c.P, p); err != nil {
			r.Infra = "bad params: " + err.Error()
			return r
		}
	} else {
		p = drawC11(src)
	}
	r.Sample = p
	pj, _ := json.Marshal(p)
	r.Key = hashKey(string(pj))
	switch p.Mode {
	case "big":
		c11Big(p, r)
	case "seq":
		c11Seq(p, r)
	case "conc":
		c11Conc(c, src, p, r)
	case "conn":
		c11Conn(c, src, p, r)
	}
	return r
}

func c11Seq(p *c11Params, r *Result) {
	sigp := "C11 seq"
	defer func() {
		// the cache is driven directly here (no kernel task): a panic inside it is a finding, not a crash of the check
		if e := recover(); e != nil {
			r.Violate("panic", sigp+" panic", "the cache panicked (capacity argument %d): %v; sequence %+v", p.Cap, e, p.Ops)
		}
	}()
	cache := newC11Cache(p.Stack, p.Cap)
	cache.prepare(p.Ops)
	m := &lruModel{cap: c11EffCap(p.Cap), vals: map[int]int{}}
	stored := map[int]bool{}
	for i, op := range p.Ops {
		if op.Op == "put" {
			// an aliasing store re-uses an object that is cached under another key; an object that has
			// already left the cache belongs to the cache no more (it may have been wiped), a client
			// never stores such an object again
			reachable := false
			for _, v := range m.vals {
				reachable = reachable || v == op.Val
			}
			if stored[op.Val] && !reachable {
				continue
			}
			stored[op.Val] = true
		}
		before := len(m.keys)
		wantV, wantOK := m.apply(op)
		gotV, gotOK := cache.do(op)
		if len(m.keys) < before || (op.Op == "put" && before == p.Cap && len(m.keys) == p.Cap) {
			r.Stat("evictions_or_deletions", 1)
		}
		if (op.Op == "get" || op.Op == "last") && (gotOK != wantOK || gotV != wantV) {
			what := "lookup"
			if i > 0 && p.Ops[i-1].Op == "del" {
				what = "lookup-after-delete"
			}
			r.Violate("lru-mismatch", sigp+" "+what, "op #%d %+v returned (value %d, %v), the reference LRU (capacity %d, state %s) says (value %d, %v); sequence %+v", i, op, gotV, gotOK, p.Cap, m, wantV, wantOK, p.Ops[:i+1])
			return
		}
		// a session reachable under some key must be intact
		for _, k := range m.keys {
			v := m.vals[k]
			if !bytes.Equal(cache.master(v), c11Master(v)) {
				r.Violate("live-session-harmed", sigp+" live-session-harmed", "after op #%d %+v the session stored under key %d (value %d) has master secret %x; sequence %+v", i, op, k, v, head(cache.master(v)), p.Ops[:i+1])
				return
			}
		}
		// size bound, observed through lookups of all keys would disturb recency: use a probe copy instead
	}
	// final content: every key the model holds must be found with its value, every other key must not
	// (probing changes recency, so it is done once, at the end)
	for k := 0; k < 5; k++ {
		gotV, gotOK := cache.do(c11Op{Op: "get", Key: k})
		wantV, wantOK := m.vals[k]
		if gotOK != wantOK || (wantOK && gotV != wantV) {
			r.Violate("lru-mismatch", sigp+" final-content", "after the sequence key %d gives (value %d, %v), the reference LRU holds %s; sequence %+v", k, gotV, gotOK, m, p.Ops)
			return
		}
	}
	r.Trivial = r.Stats["evictions_or_deletions"] == 0
}

type c11In struct {
	Op  c11Op
	Cap int
}
type c11Out struct {
	V  int
	OK bool
}

func c11PorcupineModel(cap int) porcupine.Model {
	return porcupine.Model{
		Init: func() interface{} { return "" },
		Step: func(state, input, output interface{}) (bool, interface{}) {
			m := parseLRU(state.(string), cap)
			in, out := input.(c11In), output.(c11Out)
			v, ok := m.apply(in.Op)
			if in.Op.Op == "get" || in.Op.Op == "last" {
				if v != out.V || ok != out.OK {
					return false, state
				}
			}
			return true, m.String()
		},
		DescribeOperation: func(input, output interface{}) string {
			return fmt.Sprintf("%+v -> %+v", input.(c11In).Op, output)
		},
	}
}

func c11Conc(c *Case, src *vs.Src, p *c11Params, r *Result) {
	sigp := "C11 conc"
	cache := newC11Cache(p.Stack, p.Cap)
	cache.prepare(p.Ops)
	w := NewWorld(c.Seed, src)
	type rec struct {
		call, ret uint64
		op        c11Op
		out       c11Out
	}
	hist := make([][]rec, p.Tasks)
	for t := 0; t < p.Tasks; t++ {
		t := t
		w.Go(fmt.Sprintf("user%d", t), func() {
			for i := t; i < len(p.Ops); i += p.Tasks {
				op := p.Ops[i]
				call := vs.Seq()
				v, ok := cache.do(op)
				ret := vs.Seq()
				hist[t] = append(hist[t], rec{call, ret, op, c11Out{v, ok}})
				vs.Yield()
			}
		})
	}
	reason, unf := w.Run()
	w.Finish(r, sigp)
	if reason != vs.Done {
		r.Violate("deadlock", sigp+" "+reason, "run ended with %q, unfinished %v", reason, unf)
		return
	}
	var ops []porcupine.Operation
	for t, h := range hist {
		for _, e := range h {
			ops = append(ops, porcupine.Operation{ClientId: t, Input: c11In{e.op, p.Cap}, Call: int64(e.call), Output: e.out, Return: int64(e.ret)})
		}
	}
	res := porcupine.CheckOperationsTimeout(c11PorcupineModel(p.Cap), ops, 20*time.Second)
	switch res {
	case porcupine.Illegal:
		r.Violate("not-linearizable", sigp+" not-linearizable", "the concurrent history of %d operations by %d tasks on a cache of capacity %d has no sequential explanation: %+v", len(ops), p.Tasks, p.Cap, hist)
	case porcupine.Unknown:
		r.Infra = "porcupine timed out (inconclusive)"
	}
	r.Stat("concurrent_histories", 1)
	r.Key = r.Trace
}

func c11Conn(c *Case, src *vs.Src, p *c11Params, r *Result) {
	sigp := fmt.Sprintf("C11 conn %s", p.Stack)
	tc, ts := tlcp.NewLRUSessionCache(p.ClientCap), make([]tlcp.SessionCache, p.Servers)
	dc, ds := dtlcp.NewLRUSessionCache(p.ClientCap), make([]dtlcp.SessionCache, p.Servers)
	for i := range ts {
		ts[i], ds[i] = tlcp.NewLRUSessionCache(p.ServerCap), dtlcp.NewLRUSessionCache(p.ServerCap)
	}
	resumed := 0
	if p.Par > 1 {
		c11ParConn(c, src, p, r, sigp, tc, dc, ts, ds)
		return
	}
	for n, srv := range p.Visits {
		w := NewWorld(c.Seed+uint64(n), src)
		w.K.MaxElapsed = 120 * time.Second
		env := NewEnv(w)
		env.TCaches["c"], env.DCaches["c"] = tc, dc
		env.TCaches["s"], env.DCaches["s"] = ts[srv], ds[srv]
		cc := &EPConf{Suites: []uint16{ECC_GCM}, ServerName: "server.test", Cache: "c"}
		sc := &EPConf{Suites: []uint16{ECC_GCM}, Certs: []string{"server_sig", "server_enc"}, Cache: "s"}
		pair := NewPair(p.Stack, env, cc, sc, fmt.Sprintf("c%d", n), fmt.Sprintf("s%d", n), "client:1", simnet.Addr(fmt.Sprintf("server%d:443", srv)))
		out := &HSOut{}
		SpawnHandshakeEcho(w, pair, EchoOpts{Echo: true, C2S: []byte("ping"), S2C: []byte("pong")}, out, "")
		reason, unf := w.Run()
		w.Finish(r, sigp)
		if reason != vs.Done || out.CErr != nil || out.SErr != nil {
			r.Violate("honest-connection-failed", fmt.Sprintf("%s ccap=%d connection-failed", sigp, minInt(p.ClientCap, 2)), "connection #%d (to server %d) of history %v failed with client cache capacity %d, server cache capacity %d: run %s, unfinished %v, client %v, server %v", n, srv, p.Visits, p.ClientCap, p.ServerCap, reason, unf, out.CErr, out.SErr)
			return
		}
		out.Collect(pair)
		if d := out.CheckEcho(); d != "" {
			r.Violate("echo", sigp+" echo", "connection #%d: %s", n, d)
		}
		if out.CCS.Resumed {
			resumed++
		}
	}
	r.Stat("connections", len(p.Visits))
	r.Stat("resumed", resumed)
	r.Trivial = len(p.Visits) < 2
}

// c11ParConn runs the visits Par at a time, concurrently: every connection that is not ruined must succeed.
func c11ParConn(c *Case, src *vs.Src, p *c11Params, r *Result, sigp string, tc tlcp.SessionCache, dc dtlcp.SessionCache, ts []tlcp.SessionCache, ds []dtlcp.SessionCache) {
	sigp += " parallel"
	resumed, done := 0, 0
	for base := 0; base < len(p.Visits); base += p.Par {
		w := NewWorld(c.Seed+uint64(base), src)
		w.K.MaxElapsed = 120 * time.Second
		end := base + p.Par
		if end > len(p.Visits) || base == 0 {
			end = minInt(len(p.Visits), base+p.Par)
		}
		if base == 0 {
			end = 1 // the first connection alone: it creates the session the next ones hold
		}
		type one struct {
			out  *HSOut
			pair *Pair
			ruin bool
			srv  int
		}
		var round []*one
		for n := base; n < end; n++ {
			srv := p.Visits[n]
			env := NewEnv(w)
			env.TCaches["c"], env.DCaches["c"] = tc, dc
			env.TCaches["s"], env.DCaches["s"] = ts[srv], ds[srv]
			cc := &EPConf{Suites: []uint16{ECC_GCM}, ServerName: "server.test", Cache: "c"}
			sc := &EPConf{Suites: []uint16{ECC_GCM}, Certs: []string{"server_sig", "server_enc"}, Cache: "s"}
			pair := NewPair(p.Stack, env, cc, sc, fmt.Sprintf("c%d", n), fmt.Sprintf("s%d", n), simnet.Addr(fmt.Sprintf("client:%d", 1+n)), simnet.Addr(fmt.Sprintf("server%d:443", srv)))
			o := &one{out: &HSOut{}, pair: pair, srv: srv, ruin: n < len(p.Ruin) && p.Ruin[n] && pair.Pipe != nil}
			if o.ruin {
				pair.Pipe.CutAfter(simnet.DirS2C, int64(7+src.Intn(40)))
				SpawnHandshakeEcho(w, pair, EchoOpts{}, o.out, fmt.Sprint(n))
			} else {
				SpawnHandshakeEcho(w, pair, EchoOpts{Echo: true, C2S: []byte("ping"), S2C: []byte("pong")}, o.out, fmt.Sprint(n))
			}
			round = append(round, o)
		}
		if base == 0 {
			base = 1 - p.Par // next round starts at visit 1
		}
		reason, unf := w.Run()
		w.Finish(r, sigp)
		for i, o := range round {
			if o.ruin {
				continue
			}
			if reason != vs.Done || o.out.CErr != nil || o.out.SErr != nil {
				r.Violate("honest-connection-failed", fmt.Sprintf("%s ccap=%d connection-failed", sigp, minInt(p.ClientCap, 2)), "an honest connection (to server %d, one of %d running concurrently; history %v, ruined %v) failed with client cache capacity %d: run %s, unfinished %v, client %v, server %v", o.srv, len(round), p.Visits, p.Ruin, p.ClientCap, reason, unf, o.out.CErr, o.out.SErr)
				return
			}
			o.out.Collect(o.pair)
			if d := o.out.CheckEcho(); d != "" {
				r.Violate("echo", sigp+" echo", "connection %d of a round: %s", i, d)
			}
			if o.out.CCS.Resumed {
				resumed++
			}
			done++
		}
	}
	r.Stat("parallel_connections", done)
	r.Stat("resumed", resumed)
	r.Trivial = done < 2
}

// c11Big: a cache of a large requested capacity keeps that many entries.
func c11Big(p *c11Params, r *Result) {
	sigp := "C11 large-capacity"
	key := func(i int) string { return fmt.Sprintf("key-%d", i) }
	id := func(i int) []byte { return []byte{byte(i >> 8), byte(i)} }
	var put func(i int)
	var get func(i int) bool
	if p.Stack == TLCP {
		cache := tlcp.NewLRUSessionCache(p.Cap)
		put = func(i int) { cache.Put(key(i), tlcp.VerifNewSession(id(i), 0x0101, 0xe053, c11Master(i&0xff))) }
		get = func(i int) bool { s, ok := cache.Get(key(i)); return ok && s != nil }
	} else {
		cache := dtlcp.NewLRUSessionCache(p.Cap)
		put = func(i int) { cache.Put(key(i), dtlcp.VerifNewSession(id(i), 0x0101, 0xe053, c11Master(i&0xff))) }
		get = func(i int) bool { s, ok := cache.Get(key(i)); return ok && s != nil }
	}
	n := p.Cap + p.Extra
	for i := 0; i < n; i++ {
		put(i)
	}
	missing, extra := 0, 0
	first := -1
	for i := p.Extra; i < n; i++ {
		if !get(i) {
			missing++
			if first < 0 {
				first = i
			}
		}
	}
	for i := 0; i < p.Extra; i++ {
		if get(i) {
			extra++
		}
	}
	if missing > 0 {
		r.Violate("lru-mismatch", sigp+" entries-missing", "a cache created with capacity %d was given %d distinct keys: %d of the %d most recently stored ones are gone (first: #%d)", p.Cap, n, missing, p.Cap, first)
	}
	if extra > 0 {
		r.Violate("lru-mismatch", sigp+" above-capacity", "a cache created with capacity %d still holds %d of the %d oldest of %d keys", p.Cap, extra, p.Extra, n)
	}
	r.Stat("large_capacity_cases", 1)
	r.Trivial = p.Extra == 0
}
