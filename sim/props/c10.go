package props

import (
	"bytes"
	"encoding/hex"
	"encoding/json"
	"fmt"
	"sync"
	"time"

	"gitee.com/Trisia/gotlcp/dtlcp"
	"gitee.com/Trisia/gotlcp/tlcp"
	"gitee.com/Trisia/gotlcp/vs"

	"verifsim/peer"
	"verifsim/ref"
	"verifsim/simnet"
)

// C10 — session resumption is sound and falls back transparently.
type c10 struct{}

func init() { Register(c10{}) }

type c10Op struct {
	// Late (ruin): the transport ends right before the server's ChangeCipherSpec instead of at once - in a
	// full handshake the client has sent its Finished by then and may already have stored the new session
	Late   bool     `json:"late,omitempty"`
	Op     string   `json:"op"` // connect | restart | client-suites | server-suites | forged | ruin
	Server int      `json:"server"`
	Suites []uint16 `json:"suites,omitempty"`
}

type c10Params struct {
	Stack      string  `json:"stack"`
	ClientAuth bool    `json:"client_auth"`
	Servers    int     `json:"servers"`
	Ops        []c10Op `json:"ops"`
	// ClientCap: capacity of the client's session cache (0 = 64). With a single server the latest session stays
	// reachable under the server's address whatever the capacity, so the predictions do not change.
	ClientCap int `json:"client_cap,omitempty"`
	// PlainCaches: the servers use an application-supplied SessionCache (a map behind a mutex that hands out the
	// very object it was given) instead of the built-in LRU
	PlainCaches bool `json:"plain_caches,omitempty"`
	// SrvCap1: the servers' LRU caches hold one session each: a handshake with somebody else (the forged-id client)
	// evicts the session the client still holds, which must then fall back to a full handshake
	SrvCap1 bool `json:"srv_cap1,omitempty"`
	// SrvShortRand: the servers' Config.Rand hands out at most 3 bytes per Read call (an io.Reader may): session
	// identifiers must still be 32 fresh bytes
	SrvShortRand bool `json:"srv_short_rand,omitempty"`
}

// plainT / plainD: the simplest SessionCache an application could write.
type plainT struct {
	mu sync.Mutex
	m  map[string]*tlcp.SessionState
}

func (p *plainT) Get(k string) (*tlcp.SessionState, bool) {
	p.mu.Lock()
	defer p.mu.Unlock()
	s, ok := p.m[k]
	return s, ok && s != nil
}
func (p *plainT) Put(k string, s *tlcp.SessionState) {
	p.mu.Lock()
	defer p.mu.Unlock()
	if s == nil {
		delete(p.m, k)
		return
	}
	p.m[k] = s
}

type plainD struct {
	mu sync.Mutex
	m  map[string]*dtlcp.SessionState
}

func (p *plainD) Get(k string) (*dtlcp.SessionState, bool) {
	p.mu.Lock()
	defer p.mu.Unlock()
	s, ok := p.m[k]
	return s, ok && s != nil
}
func (p *plainD) Put(k string, s *dtlcp.SessionState) {
	p.mu.Lock()
	defer p.mu.Unlock()
	if s == nil {
		delete(p.m, k)
		return
	}
	p.m[k] = s
}

func (c10) ID() string    { return "C10" }
func (c10) Level() string { return "exploration" }
func (c10) Rule() string {
	return "each case is a history drawn from the seed over one client configuration (one session cache) and 1-3 real servers at distinct addresses (one cache each): connect (handshake + echo), server loses its cache (restart), client or server changes its enabled suites, a scripted client offers a forged or stale session id, a handshake is ruined (transport cut at once / peer gone, or - \"late\" - the server's ChangeCipherSpec and Finished never arrive), servers and client move to another CA (cached sessions no longer verify; and back); with or without client certificates; client cache capacity 64, or 1-2 with a single server; server caches the built-in LRU or an application-supplied map that hands out the object it was given; both stacks. A reference model of the caches predicts for every connection whether it resumes. Oracle: DidResume on both sides equals the prediction and every honest connection succeeds; a resumed connection reports the original peer certificates on both sides (also to the VerifyConnection callbacks) and has fresh randoms and Finished values; new session ids are 32 bytes and unique in the history; after a ruined handshake the next ClientHello to that server carries no session id (wire). In a third of the LRU cases the servers' caches hold one session: the forged-id client's handshake evicts the session the real client still holds, which must then fall back to a full handshake (after a ruined handshake the model takes the cache content as unknown and learns it from the next connection). In a quarter of the cases the servers' Config.Rand returns at most 3 bytes per Read: a new session id with more than 12 zero bytes counts as not random. distinct = distinct histories; non-trivial = at least one resumption and one non-trivial event (restart, reconfiguration, forged id, ruin)"
}
func (c10) Components() (real, stub []string) {
	return []string{"tlcp/dtlcp client and servers (instrumented): loadSession, checkForResumption, session creation and cleanup, lruSessionCache"},
		[]string{"transport (with cut), clock, randomness, scheduler", "forged-id client: scripted peer"}
}
func (c10) Assumptions() []string {
	return []string{"resumption is expected exactly when the client holds a session for that destination whose recorded certificates verify under the roots now configured, the server still holds its id, and its suite is still enabled on both sides", "caches are large (capacity 64) here; small capacities are C11's subject"}
}
func (c10) Count(tier string) int {
	if tier == "thorough" {
		return 40000
	}
	return 800
}
func (c10) Make(tier string, seed uint64, i int) *Case {
	return &Case{Prop: "C10", Index: i, Seed: CaseSeed(seed, "C10", i)}
}

func drawC10(src *vs.Src) *c10Params {
	p := &c10Params{Stack: pickStr(src, []string{TLCP, DTLCP}), ClientAuth: src.Bool(1, 3), Servers: 1 + src.Intn(3)}
	n := 3 + src.Intn(7)
	if src.Bool(1, 4) {
		// start with the key-agreement suites only (they need the client's certificates whatever the policy)
		p.Ops = append(p.Ops, c10Op{Op: "client-suites", Suites: []uint16{ECDHE_GCM, ECDHE_CBC}})
	}
	for i := 0; i < n; i++ {
		op := c10Op{Server: src.Intn(p.Servers)}
		switch src.Intn(13) {
		case 0, 1, 2, 3, 4, 5:
			op.Op = "connect"
		case 6:
			op.Op = "restart"
		case 7:
			op.Op = "client-suites"
			op.Suites = drawSuites(src)
		case 8:
			op.Op = "server-suites"
			op.Suites = drawSuites(src)
		case 9:
			op.Op = "forged"
		case 10:
			op.Op = "ruin"
			op.Late = src.Bool(1, 2)
		default:
			// the servers move to certificates of the other CA and the client to that CA as its only root
			// (caches stay): sessions recorded with the old certificates no longer pass the client's checks
			op.Op = "rotate"
		}
		if (op.Op == "client-suites" || op.Op == "server-suites") && op.Suites != nil && len(op.Suites) == 0 {
			op.Suites = nil
		}
		p.Ops = append(p.Ops, op)
	}
	p.Ops = append(p.Ops, c10Op{Op: "connect", Server: 0})
	if p.Servers == 1 && src.Bool(1, 2) {
		p.ClientCap = 1 + src.Intn(2)
	}
	p.PlainCaches = src.Bool(1, 3)
	p.SrvCap1 = !p.PlainCaches && src.Bool(1, 3)
	p.SrvShortRand = src.Bool(1, 4)
	return p
}

type c10Session struct {
	id     string
	suite  uint16
	server int
	peer   [][]byte // server certificates as the client saw them
	speer  [][]byte // client certificates as the server saw them
	set    int      // certificate set in force when the session was made
	cr, sr []byte
	fin    [2][12]byte
}

func (c10) Run(c *Case, src *vs.Src) *Result {
	r := &Result{}
	var p *c10Params
	if c.P != nil {
		p = &c10Params{}
		if err := json.Unmarshal(c.P, p); err != nil {
			r.Infra = "bad params: " + err.Error()
			return r
		}
	} else {
		p = drawC10(src)
	}
	r.Sample = p
	sigp := "C10 " + p.Stack
	pj, _ := json.Marshal(p)
	r.Key = hashKey(string(pj))
	ccap := 64
	if p.ClientCap > 0 {
		ccap = p.ClientCap
	}
	tcC, dcC := tlcp.NewLRUSessionCache(ccap), dtlcp.NewLRUSessionCache(ccap)
	tcS, dcS := make([]tlcp.SessionCache, p.Servers), make([]dtlcp.SessionCache, p.Servers)
	newServerCaches := func() (tlcp.SessionCache, dtlcp.SessionCache) {
		if p.PlainCaches {
			return &plainT{m: map[string]*tlcp.SessionState{}}, &plainD{m: map[string]*dtlcp.SessionState{}}
		}
		if p.SrvCap1 {
			return tlcp.NewLRUSessionCache(1), dtlcp.NewLRUSessionCache(1)
		}
		return tlcp.NewLRUSessionCache(64), dtlcp.NewLRUSessionCache(64)
	}
	// with one-entry server caches: servers whose cache content the model does not know (a ruined handshake may or
	// may not have got as far as storing a session)
	srvUnknown := map[int]bool{}
	for i := range tcS {
		tcS[i], dcS[i] = newServerCaches()
	}
	clientSuites := []uint16(nil)
	serverSuites := make([][]uint16, p.Servers)
	// model
	clientHas := map[int]*c10Session{} // by server index (= destination)
	serverHas := make([]map[string]*c10Session, p.Servers)
	for i := range serverHas {
		serverHas[i] = map[string]*c10Session{}
	}
	allIDs := map[string]bool{}
	mustNotOffer := map[int]bool{}    // destination whose last handshake (offering a session) was ruined
	neverOffer := map[string]string{} // session ids issued in handshakes that ended in a fatal error
	nResumed, nEvents := 0, 0
	certSet := 0
	for n, op := range p.Ops {
		tag := fmt.Sprintf("op#%d %s(server %d)", n, op.Op, op.Server)
		switch op.Op {
		case "restart":
			tcS[op.Server], dcS[op.Server] = newServerCaches()
			serverHas[op.Server] = map[string]*c10Session{}
			nEvents++
			continue
		case "client-suites":
			clientSuites = op.Suites
			nEvents++
			continue
		case "server-suites":
			serverSuites[op.Server] = op.Suites
			nEvents++
			continue
		case "rotate":
			certSet = 1 - certSet
			nEvents++
			continue
		}
		w := NewWorld(c.Seed+uint64(n), src)
		w.K.MaxElapsed = 60 * time.Second
		env := NewEnv(w)
		env.TCaches["c"], env.DCaches["c"] = tcC, dcC
		env.TCaches["s"], env.DCaches["s"] = tcS[op.Server], dcS[op.Server]
		cc := &EPConf{Suites: clientSuites, ServerName: "server.test", Cache: "c", Roots: []string{"ca1"}}
		sc := &EPConf{Suites: serverSuites[op.Server], Certs: []string{"server_sig", "server_enc"}, ClientCAs: []string{"ca1"}, Cache: "s"}
		sc.ShortRand = p.SrvShortRand
		if certSet == 1 {
			cc.Roots, sc.Certs = []string{"ca2"}, []string{"server_untrusted_sig", "server_untrusted_enc"}
		}
		// the client always holds both key pairs (so that ECDHE suites stay negotiable); policy decides whether they are asked for
		cc.Certs = []string{"client_sig", "client_enc"}
		if p.ClientAuth {
			sc.Auth = 4
		}
		sa := simnet.Addr(fmt.Sprintf("server%d:443", op.Server))
		model := Negotiate(cc, sc)
		if op.Op == "forged" {
			// a scripted client offers an id the server cannot know (or a stale one): full handshake must succeed
			nEvents++
			if !model.OK {
				continue
			}
			h := NewHalf(p.Stack, env, sc, false, fmt.Sprintf("srv%d", n))
			id := NewDRand(c.Seed+uint64(n), "forged-id").bytes(32)
			o := &peer.Opts{Suites: []uint16{model.Suite}, SNI: "server.test", SessionID: id, Master: bytes.Repeat([]byte{9}, 48)}
			if p.ClientAuth || IsECDHE(model.Suite) {
				o.Certs, o.SigKey = ders("client_sig", "client_enc"), sm2Key("client_sig")
			}
			h.Peer.OwnEncKey = sm2Key("client_enc")
			var srvErr error
			var sent []string
			resumedByPeer := false
			w.Go("server", func() { srvErr = h.Real.Handshake(); h.Real.Close() })
			w.Go("client", func() {
				pr := h.Peer
				out := pr.Run(o, []string{"CH", "rFLIGHT"})
				if out.Err == nil && !pr.Resuming {
					var rest []string
					requested := false
					for _, k := range pr.Received {
						requested = requested || k == "CertificateRequest"
					}
					if requested {
						rest = append(rest, "CERT")
					}
					rest = append(rest, "CKE")
					if requested {
						rest = append(rest, "CV")
					}
					rest = append(rest, "CCS", "FIN", "rFLIGHT")
					pr.Run(o, rest)
				}
				resumedByPeer = pr.Resuming
				sent = pr.Sent
				h.ClosePeerSide()
			})
			reason, unf := w.Run()
			w.Finish(r, sigp)
			cs := h.Real.CS()
			if resumedByPeer || cs.Resumed {
				r.Violate("forged-resumed", sigp+" forged-id-resumed", "%s: the server resumed a session for a forged identifier", tag)
			} else if reason != vs.Done && !(p.Stack == DTLCP && reason == vs.TimeUp) || srvErr != nil || !cs.Done {
				r.Violate("forged-not-transparent", sigp+" forged-id-full-handshake-failed", "%s: offering an unknown session id did not lead to a successful full handshake: run %s %v, server err %v, client sent %v", tag, reason, unf, srvErr, sent)
			}
			if cs.Done && !cs.Resumed && p.SrvCap1 {
				// the server cached a new session that nobody will use; it took the place of whatever was there
				serverHas[op.Server] = map[string]*c10Session{}
			}
			continue
		}
		// connect / ruin: real client and real server
		// what the VerifyConnection callbacks are shown (the last call of each side)
		var seenC, seenS [3]int // calls, resumed, peer certificates
		cc.OnVerify = func(res bool, n int) { seenC = [3]int{seenC[0] + 1, b2i(res), n} }
		sc.OnVerify = func(res bool, n int) { seenS = [3]int{seenS[0] + 1, b2i(res), n} }
		pair := NewPair(p.Stack, env, cc, sc, fmt.Sprintf("c%d", n), fmt.Sprintf("s%d", n), "client:1", sa)
		prev := clientHas[op.Server]
		out := &HSOut{}
		if op.Op == "ruin" {
			nEvents++
			srvUnknown[op.Server] = p.SrvCap1
			// the server side never answers properly: stream cut right away / datagram server absent
			if pair.Pipe != nil && op.Late {
				// the stream ends right before the server's ChangeCipherSpec record
				pair.Pipe.SetFilter(simnet.DirS2C, simnet.NewRecordMITM(simnet.DirS2C, []simnet.RFault{{Dir: simnet.DirS2C, Type: 20, N: 0, Kind: simnet.RCutAt}}))
				SpawnHandshakeEcho(w, pair, EchoOpts{}, out, "")
			} else if pair.Pipe != nil {
				pair.Pipe.CutAfter(simnet.DirS2C, int64(7+src.Intn(40)))
				SpawnHandshakeEcho(w, pair, EchoOpts{}, out, "")
			} else if op.Late {
				// datagram stack: the server is there, but its flights that begin with ChangeCipherSpec never
				// arrive; the client gives up when its socket is closed
				pair.Net.Namer = c19Datagram
				var plan []simnet.DFault
				for k := 1; k <= 12; k++ {
					plan = append(plan, simnet.DFault{Dir: simnet.DirS2C, Name: fmt.Sprintf("F6#%d", k), Kind: simnet.FDrop})
					plan = append(plan, simnet.DFault{Dir: simnet.DirS2C, Name: fmt.Sprintf("F4r#%d", k), Kind: simnet.FDrop})
				}
				pair.Net.SetPlan(plan)
				SpawnHandshakeEcho(w, pair, EchoOpts{}, out, "")
				w.Go("reaper", func() {
					vs.Sleep(9 * time.Second)
					pair.CP.Close()
					pair.SP.Close()
				})
			} else {
				w.Go("client", func() {
					out.CErr = pair.C.Handshake()
					out.CEnded = true
					pair.C.Close()
				})
				w.Go("reaper", func() {
					vs.Sleep(2500 * time.Millisecond)
					pair.CP.Close()
				})
			}
			w.Run()
			w.Finish(r, sigp)
			if out.CErr == nil {
				r.Violate("ruin", sigp+" ruined-handshake-succeeded", "%s: harness could not ruin the handshake", tag)
				return r
			}
			if op.Late && !(prev != nil && prev.set == certSet) {
				// a full handshake (nothing was offered) that died after the client's Finished: the session id the
				// server issued in it must never be offered (a session the client held before and did not offer
				// is untouched)
				_, issued, _, _ := c10Hellos(p.Stack == DTLCP, pair.WireUnits(true))
				if len(issued) > 0 {
					neverOffer[hex.EncodeToString(issued)] = tag
				}
				continue
			}
			if prev != nil && prev.set == certSet {
				// the failed handshake offered prev (its recorded certificates verify under the roots in force, so
				// the client does offer it): the client must forget it
				delete(clientHas, op.Server)
				mustNotOffer[op.Server] = true
			}
			continue
		}
		SpawnHandshakeEcho(w, pair, EchoOpts{Echo: true, C2S: payload(src, 40, 1), S2C: payload(src, 40, 2)}, out, "")
		reason, unf := w.Run()
		w.Finish(r, sigp)
		out.Collect(pair)
		// what was on the wire
		units := pair.WireUnits(true)
		offered, srvID, cr, sr := c10Hellos(p.Stack == DTLCP, units)
		if at, bad := neverOffer[hex.EncodeToString(offered)]; bad && len(offered) > 0 {
			r.Violate("offered-after-failure", sigp+" session-of-failed-handshake-offered", "%s: the ClientHello carries session id %x, which was issued in the handshake of %s that ended in a fatal error before the server's Finished was verified", tag, offered, at)
		}
		if mustNotOffer[op.Server] {
			if len(offered) > 0 {
				r.Violate("offered-after-failure", sigp+" session-offered-after-fatal-error", "%s: the ClientHello carries session id %x although the last handshake with that session ended in a fatal error", tag, offered)
			}
			delete(mustNotOffer, op.Server)
		}
		if !model.OK {
			if out.CErr == nil && out.SErr == nil {
				r.Violate("model", sigp+" incompatible-completed", "%s: configurations are incompatible (%s) but the handshake completed", tag, model.Why)
			}
			if prev != nil && len(offered) > 0 {
				// a handshake that offered the session ended in a fatal error: the client forgets it
				delete(clientHas, op.Server)
				mustNotOffer[op.Server] = true
				nEvents++
			}
			continue
		}
		// prediction
		expect := false
		if prev != nil {
			if s, ok := serverHas[op.Server][prev.id]; ok && prev.set == certSet {
				expect = hasSuite(enabledSuites(clientSuites), s.suite) && hasSuite(enabledSuites(serverSuites[op.Server]), s.suite) &&
					(!IsECDHE(s.suite) || true)
			}
		}
		if reason != vs.Done || out.CErr != nil || out.SErr != nil {
			r.Violate("fallback-failed", fmt.Sprintf("%s connection-failed expect-resume=%v", sigp, expect), "%s: honest connection failed (expected resumption=%v, client offered %x): run %s %v, client %v, server %v", tag, expect, offered, reason, unf, out.CErr, out.SErr)
			return r
		}
		if srvUnknown[op.Server] {
			// the model does not know what the one-entry cache holds: take the outcome as it is and learn from it
			expect = out.SCS.Resumed
			if !expect {
				serverHas[op.Server] = map[string]*c10Session{}
			}
			delete(srvUnknown, op.Server)
		}
		if out.CCS.Resumed != expect || out.SCS.Resumed != expect {
			r.Violate("resumption-prediction", fmt.Sprintf("%s resumed=%v/%v expected=%v", sigp, out.CCS.Resumed, out.SCS.Resumed, expect), "%s: DidResume client=%v server=%v, the cache model expects %v (client offered %x, server holds it: %v)", tag, out.CCS.Resumed, out.SCS.Resumed, expect, offered, prev != nil && serverHas[op.Server][prev.id] != nil)
		}
		if d := out.CheckEcho(); d != "" {
			r.Violate("echo", sigp+" echo", "%s: %s", tag, d)
		}
		// the application's VerifyConnection callback is shown the identity the connection ends up with
		if seenC[0] == 0 || seenS[0] == 0 {
			r.Violate("verify-callback", sigp+" verify-connection-not-called", "%s: VerifyConnection calls: client %d, server %d", tag, seenC[0], seenS[0])
		} else if seenC[2] != len(out.CCS.Peer) || seenS[2] != len(out.SCS.Peer) || seenC[1] != b2i(out.CCS.Resumed) || seenS[1] != b2i(out.SCS.Resumed) {
			r.Violate("verify-callback", fmt.Sprintf("%s verify-connection-sees-other-identity resumed=%v", sigp, out.SCS.Resumed), "%s: VerifyConnection was shown (resumed=%d, %d peer certificates) on the client and (resumed=%d, %d) on the server; the connections report resumed=%v/%v with %d/%d peer certificates", tag, seenC[1], seenC[2], seenS[1], seenS[2], out.CCS.Resumed, out.SCS.Resumed, len(out.CCS.Peer), len(out.SCS.Peer))
		}
		sid := hex.EncodeToString(srvID)
		if out.CCS.Resumed {
			nResumed++
			if prev == nil || sid != prev.id {
				r.Violate("resumed-id", sigp+" resumed-other-id", "%s: resumed but ServerHello carries %x, offered %x", tag, srvID, offered)
			} else {
				if !equalDERs(out.CCS.Peer, prev.peer) {
					r.Violate("identity", sigp+" resumed-identity-changed", "%s: a resumed connection reports different peer certificates than the original", tag)
				}
				if !equalDERs(out.SCS.Peer, prev.speer) {
					r.Violate("identity", sigp+" resumed-client-identity-changed", "%s: on the server a resumed connection reports %d client certificates, the original connection reported %d (suite %04x, client-auth policy on: %v)", tag, len(out.SCS.Peer), len(prev.speer), out.SCS.Suite, p.ClientAuth)
				}
				if bytes.Equal(cr, prev.cr) || bytes.Equal(sr, prev.sr) {
					r.Violate("fresh-keys", sigp+" randoms-reused", "%s: a resumed connection reuses a random of the original connection", tag)
				}
				if out.CFin[0] == prev.fin[0] || out.CFin[1] == prev.fin[1] {
					r.Violate("fresh-keys", sigp+" finished-reused", "%s: a resumed connection has the same Finished value as the original", tag)
				}
			}
		} else {
			if len(srvID) != 32 {
				r.Violate("session-id", sigp+" session-id-length", "%s: new session id has %d bytes", tag, len(srvID))
			}
			zeros := 0
			for _, b := range srvID {
				if b == 0 {
					zeros++
				}
			}
			if zeros > 12 {
				r.Violate("session-id", sigp+" session-id-not-random", "%s: new session id %x has %d zero bytes (the server's Config.Rand returns short reads: %v)", tag, srvID, zeros, p.SrvShortRand)
			}
			if allIDs[sid] {
				r.Violate("session-id", sigp+" session-id-reused", "%s: session id %x was issued before in this history", tag, srvID)
			}
			allIDs[sid] = true
			s := &c10Session{id: sid, suite: out.CCS.Suite, server: op.Server, peer: out.CCS.Peer, speer: out.SCS.Peer, set: certSet, cr: cr, sr: sr, fin: out.CFin}
			clientHas[op.Server] = s
			if p.SrvCap1 {
				serverHas[op.Server] = map[string]*c10Session{}
			}
			serverHas[op.Server][sid] = s
		}
	}
	r.Stat("resumed_connections", nResumed)
	r.Stat("events", nEvents)
	r.Trivial = nResumed == 0 || nEvents == 0
	r.Outcome = fmt.Sprintf("resumed=%d events=%d", nResumed, nEvents)
	return r
}

// c10Hellos extracts the offered session id, the server's session id and both randoms from the wire.
func c10Hellos(dtls bool, units [2][][]byte) (offered, srvID, cr, sr []byte) {
	v := ref.Observe(dtls, units, &ref.Secrets{KeyFor: keyResolver(), Sessions: map[string][]byte{}})
	if v.CH != nil {
		offered, cr = v.CH.SessionID, v.CH.Random
	}
	if v.SH != nil {
		srvID, sr = v.SH.SessionID, v.SH.Random
	}
	return
}

func b2i(b bool) int {
	if b {
		return 1
	}
	return 0
}
