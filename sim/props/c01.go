package props

import (
	"encoding/json"
	"fmt"
	"strings"
	"time"

	"gitee.com/Trisia/gotlcp/dtlcp"
	"gitee.com/Trisia/gotlcp/tlcp"
	"gitee.com/Trisia/gotlcp/vs"

	"verifsim/fix"
	"verifsim/simnet"
)

// C01 — honest handshakes end in agreement on every negotiated parameter.
type c01 struct{}

func init() { Register(c01{}) }

type c01Params struct {
	Stack  string `json:"stack"`
	Client EPConf `json:"client"`
	Server EPConf `json:"server"`
	Seg    int    `json:"seg"`
	Conns  int    `json:"conns"` // 1, or 2 when both sides have a cache (second should resume)
	// Reconf: for the second connection one side (ReconfWho) is reconfigured to these suites (the caches stay):
	// the session is resumed only if its suite is still enabled on both sides, otherwise the handshake is
	// negotiated anew under the new configuration
	Reconf    []uint16 `json:"reconf,omitempty"`
	ReconfWho string   `json:"reconf_who,omitempty"`
	// Burst (stream stack): the client's payload is 15 small writes followed by one of 20000 bytes (a record-size
	// ramp that has left its first step), instead of one write
	Burst bool `json:"burst,omitempty"`
	// ThinkMs: the server application answers only after this much (virtual) time, on every connection
	ThinkMs int `json:"think_ms,omitempty"`
	// PlainCache: the server's session cache is a plain map that hands out the very object it was given (the
	// interface allows that), not the library's LRU cache; Conns may then be 3 (full, resumed, resumed)
	PlainCache bool `json:"plain_cache,omitempty"`
	C2S    int    `json:"c2s"`
	S2C    int    `json:"s2c"`
}

func (c01) ID() string    { return "C01" }
func (c01) Level() string { return "exploration" }
func (c01) Rule() string {
	return "each case draws a (client, server) configuration pair from the seed: enabled suites (subset+order, nil=default), client key pairs (none/sign/sign+enc, trusted/untrusted/expired; static, through the callbacks, or one of each), server key pairs static or through the callbacks, the six client-auth policies, client CA set, ALPN lists (empty/disjoint/overlapping/h2-vs-http1.1), server name set or not, server identity (trusted/untrusted/expired/wrong name/none), InsecureSkipVerify, caches on/off (second connection, optionally after one side was reconfigured to other suites), config used directly / Clone() / GetConfigForClient; stack tlcp or dtlcp; transport segmentation and task interleaving from the schedule. The oracle is an independent negotiation model. Also: the server application may answer only after 1.5 or 6 s of virtual time while the client waits without a deadline; the server's cache may be an application-supplied map that hands out its object; with caches and no reconfiguration there may be three connections (full, resumed, resumed). The server's signing key pair may carry a chain of one to three further certificates; the client must report everything that was presented. distinct = distinct (stack, configuration pair, outcome); non-trivial = handshake actually ran to an outcome on both sides"
}
func (c01) Components() (real, stub []string) {
	return []string{"tlcp.Conn client+server (instrumented)", "dtlcp.Conn client+server (instrumented)", "lruSessionCache", "gmsm crypto"},
		[]string{"transport (simnet stream / datagram network)", "clock and timers (vs kernel)", "randomness (DRand)", "scheduler (vs kernel)"}
}
func (c01) Assumptions() []string {
	return []string{"negotiation model written from the documentation of Config / ClientAuthType and the property text", "an endpoint whose Handshake fails closes its connection (usual application behaviour)", "static PKI judged at the fixed date 2030-01-01"}
}

func (c01) Count(tier string) int {
	if tier == "thorough" {
		return 500000
	}
	return 3000
}

var alpnChoices = [][]string{nil, {"h2"}, {"http/1.1"}, {"h2", "http/1.1"}, {"http/1.1", "h2"}, {"foo"}, {"foo", "bar"}, {"bar", "foo", "h2"},
	{"h2", "spdy/3.1"}, {"spdy/3.1", "h2", "baz"}, {"http/1.1", "qux"}, {"qux", "http/1.1", "quux"}, {"h2", "bar"}}

func drawSuites(src *vs.Src) []uint16 {
	switch src.Intn(6) {
	case 0:
		return nil
	case 1:
		return []uint16{AllSuites[src.Intn(4)]}
	}
	// random subset in random order (possibly empty)
	var out []uint16
	perm := []int{0, 1, 2, 3}
	for i := 3; i > 0; i-- {
		j := src.Intn(i + 1)
		perm[i], perm[j] = perm[j], perm[i]
	}
	mask := src.Intn(16)
	for _, i := range perm {
		if mask&(1<<i) != 0 {
			out = append(out, AllSuites[i])
		}
	}
	if out == nil {
		out = []uint16{}
	}
	return out
}

func (c01) Make(tier string, seed uint64, i int) *Case {
	return &Case{Prop: "C01", Index: i, Seed: CaseSeed(seed, "C01", i)}
}

func drawC01(src *vs.Src) *c01Params {
	p := &c01Params{}
	p.Stack = pickStr(src, []string{TLCP, DTLCP})
	// client
	p.Client.Suites = drawSuites(src)
	switch src.Intn(8) {
	case 0, 1:
	case 2:
		p.Client.Certs = []string{"client_sig"}
	case 3, 4, 5:
		p.Client.Certs = []string{"client_sig", "client_enc"}
	case 6:
		p.Client.Certs = []string{"client_untrusted_sig", "client_untrusted_enc"}
	case 7:
		p.Client.Certs = []string{"client_expired_sig", "client_expired_enc"}
	}
	p.Client.ALPN = alpnChoices[src.Intn(len(alpnChoices))]
	if src.Bool(2, 3) {
		p.Client.ServerName = "server.test"
	}
	p.Client.SkipVerify = src.Bool(1, 6)
	if src.Bool(1, 5) {
		p.Client.Roots = []string{"ca1", "ca2"}
	} else {
		p.Client.Roots = []string{"ca1"}
	}
	p.Client.Clone = src.Intn(2)
	// server
	p.Server.Suites = drawSuites(src)
	switch src.Intn(12) {
	case 0:
		p.Server.Certs = []string{"server_untrusted_sig", "server_untrusted_enc"}
	case 1:
		p.Server.Certs = []string{"server_expired_sig", "server_expired_enc"}
	case 2:
		p.Server.Certs = []string{"server_wrongname_sig", "server_wrongname_enc"}
	case 3:
		p.Server.Certs = []string{"server_future_sig", "server_future_enc"}
	default:
		p.Server.Certs = []string{"server_sig", "server_enc"}
	}
	p.Server.Auth = src.Intn(6)
	if src.Bool(1, 4) {
		p.Server.ClientCAs = []string{"ca1", "ca2"}
	} else {
		p.Server.ClientCAs = []string{"ca1"}
	}
	p.Server.ALPN = alpnChoices[src.Intn(len(alpnChoices))]
	p.Server.Clone = src.Intn(3)
	p.Conns = 1
	if src.Bool(1, 2) {
		p.Client.Cache = "c"
	}
	if src.Bool(1, 2) {
		p.Server.Cache = "s"
	}
	if p.Client.Cache != "" || p.Server.Cache != "" {
		p.Conns = 2
		if src.Bool(1, 3) {
			p.ReconfWho = pickStr(src, []string{"server", "client"})
			p.Reconf = drawSuites(src)
			if p.Reconf == nil {
				p.Reconf = []uint16{AllSuites[src.Intn(4)]}
			}
		}
	}
	if p.Conns == 2 && p.ReconfWho == "" && src.Bool(1, 3) {
		p.Conns = 3
	}
	p.PlainCache = p.Server.Cache != "" && src.Bool(1, 3)
	if src.Bool(1, 6) {
		// the server's signing key pair carries a chain (one to three more certificates behind the leaf)
		p.Server.ChainPad = 1 + src.Intn(3)
	}
	if src.Bool(1, 4) {
		p.ThinkMs = pickInt(src, []int{1500, 6000})
	}
	p.Client.CertVia = pickInt(src, []int{0, 0, 1, 2})
	if p.Client.CertVia == 2 && !(len(p.Client.Certs) == 2 && p.Client.Certs[0] == "client_sig" && inList(p.Server.ClientCAs, "ca1")) {
		// "one static, one through its callback" only where the static one passes the server's CA filter: what a
		// client should do with an encryption certificate but no presentable signing certificate is not specified
		p.Client.CertVia = 1
	}
	p.Server.CertVia = pickInt(src, []int{0, 0, 1})
	p.Burst = p.Stack == TLCP && src.Bool(1, 6)
	p.Seg = src.Intn(3)
	p.C2S = 1 + src.Intn(3000)
	p.S2C = 1 + src.Intn(3000)
	if p.Stack == DTLCP {
		// keep each payload inside one default-PMTU record so Read/Write keep boundaries out of the picture (C15 covers them)
		p.C2S = 1 + p.C2S%1000
		p.S2C = 1 + p.S2C%1000
	}
	return p
}

// ---- independent negotiation model -----------------------------------------

type negoOut struct {
	OK         bool
	Why        string
	Suite      uint16
	ALPN       string
	ServerPeer []string // certificates the server must report as peer certificates
}

func certCA(name string) string {
	switch {
	case strings.Contains(name, "untrusted"):
		return "ca2"
	}
	return "ca1"
}

func certValidNow(name string) bool {
	return !strings.Contains(name, "expired") && !strings.Contains(name, "future")
}

func inList(xs []string, x string) bool {
	for _, y := range xs {
		if y == x {
			return true
		}
	}
	return false
}

func enabledSuites(s []uint16) []uint16 {
	if s == nil {
		return AllSuites
	}
	return s
}

func hasSuite(xs []uint16, x uint16) bool {
	for _, y := range xs {
		if y == x {
			return true
		}
	}
	return false
}

// Negotiate predicts the outcome of an honest full handshake.
func Negotiate(cc, sc *EPConf) negoOut {
	ce, se := enabledSuites(cc.Suites), enabledSuites(sc.Suites)
	clientHasBoth := len(cc.Certs) >= 2
	var chosen uint16
	for _, s := range AllSuites { // documented priority order
		if !hasSuite(ce, s) || !hasSuite(se, s) {
			continue
		}
		if IsECDHE(s) && !clientHasBoth {
			continue
		}
		chosen = s
		break
	}
	if len(sc.Certs) < 2 {
		return negoOut{Why: "server has no key pairs"}
	}
	// ALPN is decided before the suite on the server, both failures are failures
	alpn := ""
	if len(cc.ALPN) > 0 && len(sc.ALPN) > 0 {
		found := false
		for _, s := range sc.ALPN {
			if inList(cc.ALPN, s) {
				alpn, found = s, true
				break
			}
		}
		if !found {
			if inList(sc.ALPN, "h2") && inList(cc.ALPN, "http/1.1") {
				alpn = ""
			} else {
				return negoOut{Why: "no common application protocol"}
			}
		}
	}
	if chosen == 0 {
		return negoOut{Why: "no common suite"}
	}
	// server certificate acceptable to the client?
	if !cc.SkipVerify {
		roots := cc.Roots
		if roots == nil {
			roots = []string{"ca1"}
		}
		for _, n := range sc.Certs[:2] {
			if !inList(roots, certCA(n)) {
				return negoOut{Why: "server certificate from an untrusted CA"}
			}
			if !certValidNow(n) {
				return negoOut{Why: "server certificate not valid at the configured time"}
			}
			if cc.ServerName != "" && strings.Contains(n, "wrongname") {
				return negoOut{Why: "server certificate not valid for the configured name"}
			}
		}
	}
	// client authentication
	out := negoOut{OK: true, Suite: chosen, ALPN: alpn}
	requested := sc.Auth >= 1 || IsECDHE(chosen)
	if !requested {
		return out
	}
	cas := sc.ClientCAs
	if cas == nil {
		cas = []string{"ca1"}
	}
	var present []string
	for i, n := range cc.Certs {
		if i >= 2 {
			break
		}
		// a static certificate is only presented if it comes from a CA the server named; one that the
		// application hands out through a callback is presented as it is
		viaCallback := cc.CertVia == 1 || (cc.CertVia == 2 && i == 1)
		if viaCallback || inList(cas, certCA(n)) {
			present = append(present, n)
		}
	}
	if IsECDHE(chosen) && len(present) < 2 {
		return negoOut{Why: "ECDHE needs both client certificates"}
	}
	required := sc.Auth == 2 || sc.Auth == 4 || sc.Auth == 5
	if len(present) == 0 {
		if required {
			return negoOut{Why: "client certificate required but none presented"}
		}
		return out
	}
	if sc.Auth >= 3 {
		check := present[:1]
		if IsECDHE(chosen) {
			check = present[:2]
		}
		for _, n := range check {
			if !inList(cas, certCA(n)) {
				return negoOut{Why: "client certificate from a CA the server does not trust"}
			}
			if !certValidNow(n) {
				return negoOut{Why: "client certificate not valid at the configured time"}
			}
		}
	}
	out.ServerPeer = present
	return out
}

// ---- run --------------------------------------------------------------------

func (c01) Run(c *Case, src *vs.Src) *Result {
	r := &Result{}
	var p *c01Params
	if c.P != nil {
		p = &c01Params{}
		if err := json.Unmarshal(c.P, p); err != nil {
			r.Infra = "bad params: " + err.Error()
			return r
		}
	} else {
		p = drawC01(src)
	}
	r.Sample = p
	w := NewWorld(c.Seed, src)
	w.K.MaxElapsed = 600 * time.Second
	env := NewEnv(w)
	if p.Client.Cache != "" {
		env.TCaches["c"], env.DCaches["c"] = tlcp.NewLRUSessionCache(8), dtlcp.NewLRUSessionCache(8)
	}
	if p.Server.Cache != "" {
		env.TCaches["s"], env.DCaches["s"] = tlcp.NewLRUSessionCache(8), dtlcp.NewLRUSessionCache(8)
		if p.PlainCache {
			env.TCaches["s"], env.DCaches["s"] = &plainT{m: map[string]*tlcp.SessionState{}}, &plainD{m: map[string]*dtlcp.SessionState{}}
		}
	}
	model := Negotiate(&p.Client, &p.Server)
	cli2, srv2 := p.Client, p.Server
	switch p.ReconfWho {
	case "server":
		srv2.Suites = p.Reconf
	case "client":
		cli2.Suites = p.Reconf
	}
	models := []negoOut{model, Negotiate(&cli2, &srv2)}
	outs := make([]*HSOut, p.Conns)
	pairs := make([]*Pair, p.Conns)
	// connections run one after the other: task "driver" starts the second pair when the first is finished
	for i := 0; i < p.Conns; i++ {
		pairs[i] = NewPair(p.Stack, env, &p.Client, &p.Server, fmt.Sprintf("c%d", i), fmt.Sprintf("s%d", i), simnet.Addr(fmt.Sprintf("client:%d", 1000+i)), "server:443")
		if pairs[i].Pipe != nil {
			pairs[i].Pipe.C.Seg, pairs[i].Pipe.S.Seg = p.Seg, p.Seg
		}
		outs[i] = &HSOut{}
	}
	c2s, s2c := payload(src, p.C2S, 1), payload(src, p.S2C, 2)
	var parts []int
	if p.Burst {
		c2s = payload(src, 15*64+20000, 1)
		for i := 0; i < 15; i++ {
			parts = append(parts, 64)
		}
	}
	think := time.Duration(p.ThinkMs) * time.Millisecond
	SpawnHandshakeEcho(w, pairs[0], EchoOpts{Echo: true, C2S: c2s, S2C: s2c, C2SParts: parts, Think: think}, outs[0], "0")
	reason, unf := w.Run()
	reasons := []string{reason}
	unfs := [][]string{unf}
	ws := []*World{w}
	for k := 1; k < p.Conns && reasons[k-1] == vs.Done; k++ {
		// next connection in a fresh kernel run, same caches and configuration objects' descriptions
		w2 := NewWorld(c.Seed+uint64(k), src)
		w2.K.MaxElapsed = 600 * time.Second
		env.W = w2
		pairs[k] = NewPair(p.Stack, env, &cli2, &srv2, fmt.Sprintf("c%d", k), fmt.Sprintf("s%d", k), simnet.Addr(fmt.Sprintf("client:%d", 1000+k)), "server:443")
		if pairs[k].Pipe != nil {
			pairs[k].Pipe.C.Seg, pairs[k].Pipe.S.Seg = p.Seg, p.Seg
		}
		SpawnHandshakeEcho(w2, pairs[k], EchoOpts{Echo: true, C2S: s2c, S2C: c2s, Think: think}, outs[k], fmt.Sprint(k))
		reason2, unf2 := w2.Run()
		reasons = append(reasons, reason2)
		unfs = append(unfs, unf2)
		ws = append(ws, w2)
	}
	sigp := "C01 " + p.Stack
	outcome := ""
	for i, wi := range ws {
		o := outs[i]
		o.Collect(pairs[i])
		wi.Finish(r, sigp)
		if i > 0 {
			r.SimNs += 0
		}
		conn := fmt.Sprintf("conn%d", i)
		wantResumed := i >= 1 && p.Client.Cache != "" && p.Server.Cache != "" && models[0].OK &&
			hasSuite(enabledSuites(cli2.Suites), models[0].Suite) && hasSuite(enabledSuites(srv2.Suites), models[0].Suite)
		model := models[min(i, 1)]
		if wantResumed {
			// resumption keeps what the session fixed; the application protocol is negotiated per connection
			model.OK, model.Suite, model.ServerPeer = true, models[0].Suite, models[0].ServerPeer
		}
		if reasons[i] != vs.Done {
			r.Violate("not-ended", sigp+" not-ended "+reasons[i]+" model="+fmt.Sprint(model.OK),
				"%s: run ended with %q, unfinished tasks %v (client ended=%v err=%v; server ended=%v err=%v); model: ok=%v %s",
				conn, reasons[i], unfs[i], o.CEnded, o.CErr, o.SEnded, o.SErr, model.OK, model.Why)
			outcome += "hang;"
			continue
		}
		cok, sok := o.CErr == nil, o.SErr == nil
		if cok != sok {
			r.Violate("split-outcome", sigp+" split-outcome", "%s: client err=%v, server err=%v", conn, o.CErr, o.SErr)
			outcome += "split;"
			continue
		}
		if cok != model.OK {
			r.Violate("model-mismatch", fmt.Sprintf("%s completed=%v model=%v (%s)", sigp, cok, model.OK, model.Why),
				"%s: handshake completed=%v but the model says compatible=%v (%s); client err=%v server err=%v", conn, cok, model.OK, model.Why, o.CErr, o.SErr)
			outcome += "mismatch;"
			continue
		}
		if !cok {
			outcome += "fail:" + model.Why + ";"
			continue
		}
		if d := o.CheckAgreement(); d != "" {
			r.Violate("disagree", sigp+" disagree", "%s: %s", conn, d)
		}
		if o.CCS.Resumed != wantResumed || o.SCS.Resumed != wantResumed {
			r.Violate("resumption-flag", fmt.Sprintf("%s resumed client=%v server=%v want=%v", sigp, o.CCS.Resumed, o.SCS.Resumed, wantResumed),
				"%s: DidResume client=%v server=%v, expected %v", conn, o.CCS.Resumed, o.SCS.Resumed, wantResumed)
		}
		if o.CCS.Suite != model.Suite {
			r.Violate("suite", sigp+" wrong-suite", "%s: negotiated %s, model says %s", conn, SuiteName(o.CCS.Suite), SuiteName(model.Suite))
		}
		if o.CCS.ALPN != model.ALPN {
			r.Violate("alpn", sigp+" wrong-alpn", "%s: negotiated %q, model says %q", conn, o.CCS.ALPN, model.ALPN)
		}
		if o.CCS.Vers != 0x0101 {
			r.Violate("version", sigp+" wrong-version", "%s: version %04x", conn, o.CCS.Vers)
		}
		// peer certificates: exactly what the other side presented
		wantC := [][]byte{fix.DER(p.Server.Certs[0]), fix.DER(p.Server.Certs[1])}
		for k := 0; k < p.Server.ChainPad; k++ {
			wantC = append(wantC, fix.DER("ca1")) // the chain behind the signing certificate follows the two leaves
		}
		if !equalDERs(o.CCS.Peer, wantC) {
			r.Violate("peer-certs", sigp+" client-peer-certs", "%s: client reports %d peer certificates, server presented %v", conn, len(o.CCS.Peer), p.Server.Certs)
		}
		var wantS [][]byte
		for _, n := range model.ServerPeer {
			wantS = append(wantS, fix.DER(n))
		}
		if !equalDERs(o.SCS.Peer, wantS) {
			r.Violate("peer-certs", sigp+" server-peer-certs", "%s: server reports %d peer certificates, client presented %v", conn, len(o.SCS.Peer), model.ServerPeer)
		}
		if d := o.CheckEcho(); d != "" {
			r.Violate("echo", sigp+" echo", "%s: %s", conn, d)
		}
		if p.Stack == TLCP && o.CEOF != "n=0 err=EOF" {
			r.Violate("eof", sigp+" eof", "%s: server's read after the client's Close returned %s", conn, o.CEOF)
		}
		outcome += fmt.Sprintf("ok:%s:%q:%v;", SuiteName(o.CCS.Suite), o.CCS.ALPN, o.CCS.Resumed)
		r.Stat("completed", 1)
		if o.CCS.Resumed {
			r.Stat("resumed", 1)
		}
	}
	r.Outcome = outcome
	pj, _ := json.Marshal(p)
	// distinctness: configuration without payload sizes / segmentation
	q := *p
	q.C2S, q.S2C, q.Seg = 0, 0, 0
	qj, _ := json.Marshal(q)
	r.Key = hashKey(string(qj), outcome)
	_ = pj
	return r
}
