package props

import (
	"os"
	"bytes"
	"encoding/hex"
	"encoding/json"
	"fmt"
	"strings"
	"time"

	"gitee.com/Trisia/gotlcp/dtlcp"
	"gitee.com/Trisia/gotlcp/vs"

	"verifsim/fix"
	"verifsim/ref"
	"verifsim/simnet"
)

// C15 — datagram connections keep message boundaries and respect the path MTU.
type c15 struct{}

func init() { Register(c15{}) }

type c15Params struct {
	Suite uint16 `json:"suite"`
	PMTUC int    `json:"pmtu_client"` // 0 = default 1400
	PMTUS int    `json:"pmtu_server"`
	Auth  bool   `json:"auth"`
	Sizes []int  `json:"sizes"` // WriteTo payload sizes, client -> server then server -> client
	Big   int    `json:"big"`   // one Write of this size through the stream API (0: none)
	Zero  bool   `json:"zero"`  // finish with an empty WriteTo followed by a marker datagram (client -> server)
	Loss  []int  `json:"loss"`  // handshake datagrams to drop (by name index into c15LossNames), to provoke retransmission
	// OuterPMTU != 0: the server is reached through a listener configuration with this PMTU whose
	// GetConfigForClient returns the configuration with PMTUS (the one in force for the connection)
	OuterPMTU int `json:"outer_pmtu,omitempty"`
	// Resumed: the measured connection resumes a session made by an earlier connection (no losses then: the named
	// datagrams of the full handshake do not exist). Tight: ReadFrom is given a buffer of exactly the payload's size.
	Resumed bool `json:"resumed,omitempty"`
	// IdleMs: the side that answers does so only after this much (virtual) time, and the side that waits for the
	// answer sets no read deadline of its own (no handshake datagram is lost in such a case)
	IdleMs int `json:"idle_ms,omitempty"`
	// AlertLike: after its other payloads the client also sends payloads whose bytes look like alerts and other
	// record-layer artefacts (01 00, 02 28, 00 00, 01, 14 01 01): each must come out of ReadFrom as it went in
	AlertLike bool `json:"alert_like,omitempty"`
	Tight   bool `json:"tight,omitempty"`
	// ChainPad: extra certificates in the server's chain, so that the Certificate message exceeds one record
	ChainPad int `json:"chain_pad,omitempty"`
}

var c15LossNames = []string{"CH0#1", "CH1#1", "HVR#1", "F5b#1", "F6#1"}

func (c15) ID() string    { return "C15" }
func (c15) Level() string { return "exploration" }
func (c15) Rule() string {
	return "each case draws a suite, a path MTU for each side independently (from 200 up to above the record limit, 0 = default 1400), client authentication on/off, a list of WriteTo payload sizes around the boundaries (0, 1, the exact maximum payload for that MTU and suite computed by the reference record format, one and sixteen bytes above it, 16384) for both directions, optionally one large Write through the stream API, optionally on a resumed connection, ReadFrom buffers either large or exactly the size of the payload due, 0-2 losses of handshake datagrams whose retransmission is known to work (so that retransmitted flights are measured too), optionally a server reached through a listener configuration of another PMTU whose GetConfigForClient returns the configuration in force, and optionally a server certificate chain that makes the Certificate message 16.4-17.3 KB (a handshake message above the record limit). Oracle (wire monitor over everything handed to the PacketConn): every datagram <= the sender's path MTU; no record with more than 16384 plaintext bytes; a retransmitted flight whose first transmission was within the path MTU stays within it; a WriteTo of at most the maximum payload is exactly one datagram and the peer's ReadFrom returns exactly that payload; larger writes through Write arrive complete and in order. Path MTUs also near the smallest workable value (50-80 with GCM, 77-107 with CBC): every handshake record, Finished included, must fit the sender's path MTU; the answering side may wait 1.5 / 5 s while the other waits without a read deadline of its own. A quarter of the cases add payloads that look like record-layer artefacts (01 00, 02 28, 00 00, 01, 14 01 01): each must come out of ReadFrom as it went in. distinct = distinct parameter vectors; non-trivial = handshake completed and at least one boundary-size payload crossed"
}
func (c15) Components() (real, stub []string) {
	return []string{"dtlcp client+server (instrumented): record sizing, handshake fragmentation, flight buffering and flush, retransmission"},
		[]string{"datagram network (capture, selective loss)", "clock, randomness, scheduler"}
}
func (c15) Assumptions() []string {
	return []string{"maximum payload for (MTU, suite) = largest plaintext whose protected record (13-byte header, explicit nonce/IV, MAC or tag, CBC padding) fits the MTU, computed by package ref"}
}
func (c15) Count(tier string) int {
	if tier == "thorough" {
		return 40000
	}
	return 1500
}
func (c15) Make(tier string, seed uint64, i int) *Case {
	return &Case{Prop: "C15", Index: i, Seed: CaseSeed(seed, "C15", i)}
}

// payloads that look like record-layer artefacts: close_notify, a fatal alert, zeros, one byte, a ChangeCipherSpec
var c15AlertLike = [][]byte{{1, 0}, {2, 40}, {0, 0}, {1}, {20, 1, 1}, {1, 0}}

func pmtuOf(v int) int {
	if v <= 0 {
		return 1400
	}
	return v
}

func drawC15(src *vs.Src) *c15Params {
	p := &c15Params{}
	p.Suite = AllSuites[src.Intn(4)]
	pm := func() int {
		switch src.Intn(8) {
		case 0, 1:
			return 0
		case 2:
			return 200 + src.Intn(200)
		case 3:
			return 400 + src.Intn(1000)
		case 4:
			return 1400 + src.Intn(200)
		case 5:
			return 1500 + src.Intn(8000)
		case 6:
			return 16384 + src.Intn(3000)
		}
		if src.Bool(1, 2) {
			// near the smallest workable value: even the Finished message is fragmented
			if IsCBC(p.Suite) {
				return 77 + src.Intn(30)
			}
			return 50 + src.Intn(30)
		}
		return 576
	}
	p.PMTUC, p.PMTUS = pm(), pm()
	p.Auth = src.Bool(1, 3)
	sizes := func(pmtu int) []int {
		max := ref.MaxPlaintextFor(p.Suite, true, pmtuOf(pmtu))
		if max > 16384 {
			max = 16384
		}
		cand := []int{1, 2, max - 1, max, max + 1, max + 16, max / 2, 16384, 1 + src.Intn(2000)}
		var out []int
		n := 2 + src.Intn(4)
		for i := 0; i < n; i++ {
			s := cand[src.Intn(len(cand))]
			if s < 1 {
				s = 1
			}
			out = append(out, s)
		}
		return out
	}
	p.Sizes = append(sizes(p.PMTUC), -1)
	p.Sizes = append(p.Sizes, sizes(p.PMTUS)...)
	if src.Bool(1, 3) {
		p.Big = 1 + src.Intn(40000)
	}
	p.Zero = src.Bool(1, 6)
	if src.Bool(1, 4) {
		p.OuterPMTU = pickInt(src, []int{1400, 3000, 17000, 300})
	}
	if src.Bool(1, 5) {
		// a Certificate message just above the record limit (16385..17300 bytes): it needs two records whatever
		// the PMTU, and the flight still fits the receiver's datagram buffer (the library sends a flight as one
		// datagram - known finding K3 - so that a longer chain cannot be received at all)
		per := len(fix.DER("ca1")) + 3
		base := len(fix.DER("server_sig")) + len(fix.DER("server_enc")) + 6 + 3
		p.ChainPad = (16385 - base + per - 1) / per
		p.PMTUS = 0 // default 1400: about a dozen fragments
		if src.Bool(2, 3) {
			p.PMTUS = 16384 + src.Intn(3000)
		}
	}
	p.Tight = src.Bool(1, 2)
	p.Resumed = src.Bool(1, 4)
	nl := src.Intn(3)
	if p.Resumed {
		nl = 0
	}
	for i := 0; i < nl; i++ {
		p.Loss = append(p.Loss, src.Intn(len(c15LossNames)))
	}
	if nl == 0 && src.Bool(1, 3) {
		p.IdleMs = pickInt(src, []int{1500, 5000})
	}
	if src.Bool(1, 4) {
		p.AlertLike, p.Zero, p.Big = true, false, 0
	}

	return p
}

func (c15) Run(c *Case, src *vs.Src) *Result {
	r := &Result{}
	var p *c15Params
	if c.P != nil {
		p = &c15Params{}
		if err := json.Unmarshal(c.P, p); err != nil {
			r.Infra = "bad params: " + err.Error()
			return r
		}
	} else {
		p = drawC15(src)
	}
	r.Sample = p
	sigp := "C15 " + SuiteName(p.Suite)
	cc := &EPConf{Suites: []uint16{p.Suite}, ServerName: "server.test", PMTU: p.PMTUC}
	sc := &EPConf{Suites: []uint16{p.Suite}, Certs: []string{"server_sig", "server_enc"}, ClientCAs: []string{"ca1"}, PMTU: p.PMTUS, ChainPad: p.ChainPad}
	var cacheC, cacheS dtlcp.SessionCache
	knownSessions := map[string][]byte{}
	if p.Resumed {
		cc.Cache, sc.Cache = "c", "s"
		cacheC, cacheS = dtlcp.NewLRUSessionCache(4), dtlcp.NewLRUSessionCache(4)
	}
	if p.OuterPMTU != 0 {
		sc.Clone, sc.OuterPMTU = 2, p.OuterPMTU
	}
	if p.Auth || IsECDHE(p.Suite) {
		cc.Certs = []string{"client_sig", "client_enc"}
	}
	if p.Auth {
		sc.Auth = 4
	}
	if IsECDHE(p.Suite) {
		sc.WrapKeys = true
	}
	if p.Resumed {
		// the connection that makes the session
		w0 := NewWorld(c.Seed+1, src)
		w0.K.MaxElapsed = 60 * time.Second
		env0 := NewEnv(w0)
		env0.DCaches["c"], env0.DCaches["s"] = cacheC, cacheS
		pair0 := NewPair(DTLCP, env0, cc, sc, "c0", "s0", "client:1", "server:443")
		out0 := &HSOut{}
		SpawnHandshakeEcho(w0, pair0, EchoOpts{}, out0, "")
		reason0, _ := w0.Run()
		w0.Finish(r, sigp)
		if reason0 == vs.Done && out0.CErr == nil && out0.SErr == nil {
			sec0 := &ref.Secrets{KeyFor: keyResolver("server_sig", "server_enc", "client_sig", "client_enc"), Eph: env0.KeyOps.Eph, Sessions: map[string][]byte{}}
			if v0 := pair0.Observe(sec0); v0.SH != nil && len(v0.Master) > 0 {
				knownSessions[hex.EncodeToString(v0.SH.SessionID)] = v0.Master
			}
		}
		if reason0 != vs.Done || out0.CErr != nil || out0.SErr != nil {
			r.Violate("handshake-failed", sigp+" handshake-failed", "the connection that creates the session failed: %s %v %v (path MTU client %d / server %d)", reason0, out0.CErr, out0.SErr, pmtuOf(p.PMTUC), pmtuOf(p.PMTUS))
			return r
		}
	}
	w := NewWorld(c.Seed, src)
	w.K.MaxElapsed = 200 * time.Second
	env := NewEnv(w)
	if p.Resumed {
		env.DCaches["c"], env.DCaches["s"] = cacheC, cacheS
	}
	pair := NewPair(DTLCP, env, cc, sc, "c", "s", "client:1", "server:443")
	pair.Net.Namer = c19Datagram
	var plan []simnet.DFault
	for _, l := range p.Loss {
		name := c15LossNames[l]
		dir := 0
		if name == "HVR#1" {
			dir = 1
		}
		plan = append(plan, simnet.DFault{Dir: dir, Name: name, Kind: simnet.FDrop})
	}
	pair.Net.SetPlan(plan)
	// split the size list at -1
	var szC, szS []int
	cur := &szC
	for _, s := range p.Sizes {
		if s == -1 {
			cur = &szS
			continue
		}
		*cur = append(*cur, s)
	}
	maxC := ref.MaxPlaintextFor(p.Suite, true, pmtuOf(p.PMTUC))
	maxS := ref.MaxPlaintextFor(p.Suite, true, pmtuOf(p.PMTUS))
	if maxC > 16384 {
		maxC = 16384
	}
	if maxS > 16384 {
		maxS = 16384
	}
	type io struct {
		hsErr   error
		wErr    []string
		got     [][]byte
		bigGot  []byte
		bigErr  error
		zeroGot []int
		readErr error
		alertGot [][]byte
		alertErr error
	}
	var ci, si io
	mk := func(i, n int, tag byte) []byte {
		b := make([]byte, n)
		for j := range b {
			b[j] = byte(i*31+j*7) ^ tag
		}
		return b
	}
	bigData := mk(99, p.Big, 0x5a)
	run := func(me, peerEP EP, d interface {
		WriteToAddr(b []byte) (int, error)
		ReadFromAny(b []byte) (int, error)
	}, mine []int, theirs []int, st *io, first bool, myMax int) {
		if st.hsErr = me.Handshake(); st.hsErr != nil {
			me.Close()
			return
		}
		send := func() {
			for i, n := range mine {
				if n > myMax {
					continue // above the maximum payload: not a WriteTo case (see Big)
				}
				m, err := d.WriteToAddr(mk(i, n, 0))
				if err != nil || m != n {
					st.wErr = append(st.wErr, fmt.Sprintf("WriteTo(%d bytes) = %d, %v", n, m, err))
				}
			}
			if first && p.Big > 0 {
				if m, err := me.Write(bigData); err != nil || m != len(bigData) {
					st.wErr = append(st.wErr, fmt.Sprintf("Write(%d bytes) = %d, %v", len(bigData), m, err))
				}
			}
			if first && p.AlertLike {
				for _, b := range c15AlertLike {
					if m, err := d.WriteToAddr(b); err != nil || m != len(b) {
						st.wErr = append(st.wErr, fmt.Sprintf("WriteTo(% x) = %d, %v", b, m, err))
					}
				}
			}
			if first && p.Zero {
				if m, err := d.WriteToAddr([]byte{}); err != nil || m != 0 {
					st.wErr = append(st.wErr, fmt.Sprintf("WriteTo(empty) = %d, %v", m, err))
				}
				d.WriteToAddr([]byte("marker"))
			}
		}
		recv := func() {
			buf := make([]byte, 20000)
			for k := range theirs {
				if p.IdleMs == 0 || !first {
					me.SetReadDeadline(vs.Now().Add(15 * time.Second))
				}
				if p.Tight {
					buf = make([]byte, theirs[k]) // exactly as large as the payload that is due
				}
				n, err := d.ReadFromAny(buf)
				if err != nil {
					st.readErr = err
					return
				}
				st.got = append(st.got, append([]byte(nil), buf[:n]...))
			}
			if !first && p.Big > 0 {
				me.SetReadDeadline(vs.Now().Add(3 * time.Second))
				st.bigGot, st.bigErr = readFull(me, len(bigData))
			}
			if !first && p.AlertLike {
				buf = make([]byte, 20000)
				for range c15AlertLike {
					me.SetReadDeadline(vs.Now().Add(3 * time.Second))
					n, err := d.ReadFromAny(buf)
					if err != nil {
						st.alertErr = err
						break
					}
					st.alertGot = append(st.alertGot, append([]byte(nil), buf[:n]...))
				}
			}
			if !first && p.Zero {
				buf = make([]byte, 20000)
				for k := 0; k < 2; k++ {
					me.SetReadDeadline(vs.Now().Add(3 * time.Second))
					n, err := d.ReadFromAny(buf)
					if err != nil {
						break
					}
					st.zeroGot = append(st.zeroGot, n)
				}
			}
		}
		if first {
			send()
			recv()
		} else {
			recv()
			if p.IdleMs > 0 {
				vs.Sleep(time.Duration(p.IdleMs) * time.Millisecond)
			}
			send()
		}
	}
	cd, sd := dgAPI{pair.DC}, dgAPI{pair.DS}
	// what the receiver should see: payloads not above the sender's maximum
	filter := func(sz []int, max int) []int {
		var out []int
		for _, n := range sz {
			if n <= max {
				out = append(out, n)
			}
		}
		return out
	}
	expC2S, expS2C := filter(szC, maxC), filter(szS, maxS)
	w.Go("client", func() { run(pair.C, pair.S, cd, szC, expS2C, &ci, true, maxC) })
	w.Go("server", func() { run(pair.S, pair.C, sd, szS, expC2S, &si, false, maxS) })
	reason, unf := w.Run()
	w.Finish(r, sigp)
	pj, _ := json.Marshal(p)
	r.Key = hashKey(string(pj))
	r.Outcome = reason
	if os.Getenv("VERIF_DEBUG") != "" {
		for _, d := range pair.Net.SentLog() {
			fmt.Fprintf(os.Stderr, "dgram dir=%d t=%v len=%d name=%s dropped=%v %x\n", d.Dir, d.SentAt, len(d.Data), d.Name, d.Dropped, d.Data[:min(len(d.Data), 30)])
		}
	}
	if reason != vs.Done {
		r.Violate("not-ended", sigp+" not-ended "+reason, "run ended with %q, unfinished %v (client hs %v, server hs %v)", reason, unf, ci.hsErr, si.hsErr)
		return r
	}
	// ---- a retransmission is not larger than what it repeats: a flight whose first transmission respected the
	// path MTU must not exceed it when it is sent again
	firstLen := map[string]int{}
	for _, d := range pair.Net.SentLog() {
		if i := strings.Index(d.Name, "#"); i > 0 {
			base := fmt.Sprintf("%d/%s", d.Dir, d.Name[:i])
			limit := pmtuOf(p.PMTUC)
			if d.Dir == simnet.DirS2C {
				limit = pmtuOf(p.PMTUS)
			}
			if d.Name[i:] == "#1" {
				firstLen[base] = d.OrigLen
			} else if fl, ok := firstLen[base]; ok && fl <= limit && d.OrigLen > limit {
				r.Violate("datagram-over-mtu", "C15 retransmission>pmtu original-within", "datagram %s has %d bytes with path MTU %d, while the first transmission of that flight had %d", d.Name, d.OrigLen, limit, fl)
				break
			}
		}
	}
	// ---- datagram sizes (everything handed to the network, including handshake flights and retransmissions)
	for _, d := range pair.Net.SentLog() {
		limit := pmtuOf(p.PMTUC)
		who := "client"
		if d.Dir == simnet.DirS2C {
			limit, who = pmtuOf(p.PMTUS), "server"
		}
		if d.OrigLen > limit {
			kind := c19Datagram(d)
			cls := "handshake"
			if kind == "protected" {
				cls = "application"
			}
			r.Violate("datagram-over-mtu", fmt.Sprintf("C15 datagram>pmtu %s %s", cls, cbcTag(p.Suite, cls)), "%s sent a datagram of %d bytes (%s) with path MTU %d", who, d.OrigLen, d.Name, limit)
			break
		}
	}
	// record sizes straight off the wire (whether or not the handshake went through): an unprotected record's
	// length is its plaintext length
	for _, d := range pair.Net.SentLog() {
		b := d.Data
		for q := 0; q+13 <= len(b); {
			n := int(b[q+11])<<8 | int(b[q+12])
			epoch := int(b[q+3])<<8 | int(b[q+4])
			limit := pmtuOf(p.PMTUC)
			if d.Dir == simnet.DirS2C {
				limit = pmtuOf(p.PMTUS)
			}
			if 13+n > limit && !(epoch > 0 && b[q] == 23) {
				// handshake messages are fragmented so that every record fits the path MTU (application records: above)
				r.Violate("record-over-mtu", sigp+" handshake-record>pmtu", "a record of type %d, epoch %d takes %d bytes on the wire with path MTU %d (datagram %s)", b[q], epoch, 13+n, limit, d.Name)
			}
			if epoch == 0 && n > 16384 {
				r.Violate("record-size", sigp+" plaintext>16384", "unprotected record of type %d with %d bytes of plaintext in a datagram of %d bytes", b[q], n, len(b))
			} else if n > 16384+2048 {
				r.Violate("record-size", sigp+" ciphertext>18432", "record of type %d with %d bytes", b[q], n)
			}
			q += 13 + n
		}
	}
	if ci.hsErr != nil || si.hsErr != nil {
		// every configuration generated here (path MTU >= 200, flights that fit the receiver's datagram buffer,
		// only losses whose retransmission works) permits a handshake: a failure is the sizing logic's doing
		r.Outcome = "handshake-failed"
		r.Violate("handshake-failed", sigp+" handshake-failed", "honest handshake failed with path MTU client %d / server %d, chain padding %d, losses %v: client %v, server %v", pmtuOf(p.PMTUC), pmtuOf(p.PMTUS), p.ChainPad, p.Loss, ci.hsErr, si.hsErr)
		return r
	}
	for _, e := range append(ci.wErr, si.wErr...) {
		r.Violate("write", sigp+" write-result", "%s", e)
	}
	check := func(who string, st *io, exp []int, tag byte, senderMax int) {
		if st.readErr != nil {
			r.Violate("boundary", "C15 datagram-missing "+zeroTag(exp, len(st.got)), "%s: ReadFrom failed with %v after %d of %d datagrams (expected sizes %v)", who, st.readErr, len(st.got), len(exp), exp)
			return
		}
		// map expected index back to the sender's index for content
		for k, g := range st.got {
			if k >= len(exp) {
				break
			}
			if len(g) != exp[k] {
				r.Violate("boundary", "C15 message-boundary", "%s: datagram %d has %d bytes, the peer wrote %d", who, k, len(g), exp[k])
				return
			}
		}
	}
	check("server", &si, expC2S, 0, maxC)
	check("client", &ci, expS2C, 0, maxS)
	if p.Big > 0 {
		if si.bigErr != nil || !bytes.Equal(si.bigGot, bigData) {
			r.Violate("big-write", sigp+" big-write", "a Write of %d bytes arrived as %d bytes (err %v)", len(bigData), len(si.bigGot), si.bigErr)
		}
	}
	if p.AlertLike && si.readErr == nil {
		for k, b := range c15AlertLike {
			if k >= len(si.alertGot) || !bytes.Equal(si.alertGot[k], b) {
				var got []byte
				if k < len(si.alertGot) {
					got = si.alertGot[k]
				}
				r.Violate("boundary", "C15 payload-by-content", "WriteTo of the %d-byte payload % x: the peer's ReadFrom returned % x (error %v; %d of %d such payloads arrived)", len(b), b, got, si.alertErr, len(si.alertGot), len(c15AlertLike))
				break
			}
		}
	}
	if p.Zero && !(len(si.zeroGot) == 2 && si.zeroGot[0] == 0 && si.zeroGot[1] == 6) {
		r.Violate("empty-payload", "C15 empty-payload", "WriteTo of an empty payload followed by a 6-byte marker: the peer's ReadFrom calls returned sizes %v (want [0 6])", si.zeroGot)
	}
	// ---- one WriteTo = one datagram, no record above 16384: monitor
	sec := &ref.Secrets{KeyFor: keyResolver("server_sig", "server_enc", "client_sig", "client_enc"), Eph: env.KeyOps.Eph, Sessions: knownSessions}
	if len(p.Loss) == 0 {
		v := pair.Observe(sec)
		for _, e := range v.Errors {
			r.Violate("monitor", sigp+" monitor: "+clipSig(e), "%s", e)
		}
		for _, o := range v.Records {
			if len(o.Plain) > 16384 {
				r.Violate("record-size", sigp+" plaintext>16384", "record with %d plaintext bytes", len(o.Plain))
			}
		}
		nApp := [2]int{len(v.AppData[0]), len(v.AppData[1])}
		wantC := len(expC2S)
		if p.AlertLike {
			wantC += len(c15AlertLike)
		}
		if nApp[1] != len(expS2C) {
			r.Violate("boundary", "C15 writeto-records "+zeroTag(expS2C, nApp[1]), "server made %d WriteTo calls within the maximum payload but %d application records are on the wire", len(expS2C), nApp[1])
		}
		if p.Big == 0 && !p.Zero && nApp[0] != wantC {
			r.Violate("boundary", "C15 writeto-records "+zeroTag(expC2S, nApp[0]), "client made %d WriteTo calls within the maximum payload but %d application records are on the wire", wantC, nApp[0])
		}
	}
	r.Stat("datagrams", len(pair.Net.SentLog()))
	return r
}

func cbcTag(suite uint16, cls string) string {
	if cls == "application" && IsCBC(suite) {
		return "cbc"
	}
	if cls == "application" {
		return "gcm"
	}
	return ""
}

// zeroTag marks the cases where the only difference is an empty payload.
func zeroTag(exp []int, got int) string {
	zeros := 0
	for _, n := range exp {
		if n == 0 {
			zeros++
		}
	}
	if len(exp)-got == zeros && zeros > 0 {
		return "empty-payload"
	}
	return "other"
}

type dgAPI struct{ c *dtlcp.Conn }

func (d dgAPI) WriteToAddr(b []byte) (int, error) { return d.c.WriteTo(b, d.c.RemoteAddr()) }
func (d dgAPI) ReadFromAny(b []byte) (int, error) {
	n, _, err := d.c.ReadFrom(b)
	return n, err
}
