package props

import (
	"strings"
	"encoding/json"
	"fmt"
	"os"
	"sync"
	"time"

	"gitee.com/Trisia/gotlcp/dtlcp"
	"gitee.com/Trisia/gotlcp/tlcp"
	"gitee.com/Trisia/gotlcp/vs"

	"verifsim/peer"
)

// C02 — a verifying client completes only with an authenticated server.
type c02 struct{}

func init() { Register(c02{}) }

type c02Params struct {
	Stack      string `json:"stack"`
	Suite      uint16 `json:"suite"`
	SkipVerify bool   `json:"skip_verify"`
	Impostor   string `json:"impostor"`
	Seg        int    `json:"seg"`
}

// impostor catalogue: name -> how the scripted server deviates
var c02Catalogue = []string{
	"honest",                 // control: must complete
	"untrusted-ca",           // both certificates from a CA the client does not trust (keys held)
	"expired",                // both certificates expired at the configured time
	"not-yet-valid",          //
	"wrong-name",             // valid for another host name
	"single-cert",            // only the signing certificate
	"swapped",                // encryption certificate first, signing certificate second (keys held, signs with the key of the first)
	"mixed-ca",               // signing certificate trusted, encryption certificate from the untrusted CA
	"skx-other-key",          // signature made with another key
	"skx-other-randoms",      // signature (right key) over randoms of another handshake
	"skx-other-cert-params",  // signature over another certificate (ECC) / other ECDH parameters (ECDHE)
	"skx-corrupt",            //
	"skx-empty",              // zero-length signature
	"skx-omitted",            // ServerKeyExchange left out; the peer holds the encryption key but not the signing key
	"no-enc-key",             // valid signature, but the peer cannot use the encryption private key
	"no-keys-skx-omitted",    // holds no private key at all and omits ServerKeyExchange
	"resume-unverified",      // a session created under InsecureSkipVerify is resumed under a verifying configuration sharing the cache
	"resume-unverified-mixed", // same, but only the ENCRYPTION certificate of the recorded pair is untrusted
	"wrong-name-ip",          // the client is configured with an IP literal as server name; the certificates do not list it
	"recent-expired",         // certificates that ended mid-2029: expired at the configured time (2030), in date on the wall clock (2024) and on a real clock
	"late-honest",            // control: certificates in date from mid-2029 - valid at the configured time only
	"resume-twice-zero-master", // honest full handshake, honest resumption, then a peer without any key resumes the session with an all-zero master secret
	"honest-short-rand",      // control: the client's Config.Rand hands out 3 bytes per call; must complete, and the hello's random must be filled
	"resume-other-name",      // a session made by a configuration for server.test is offered, through the shared cache, by one whose ServerName is other.test
	"skx-signed-by-enc-key",  // genuine certificate pair, but the peer holds only the encryption key and signs ServerKeyExchange with it
	"valid-then-expired",     // an honest connection succeeds; later the same configuration (same root pool object) reports a time after the certificates' end
	"valid-then-expired-resume", // same with a session cache: the server tries to resume the session made while the certificates were valid
	// after-session:<x>: the client holds a session from an honest connection to this address (shared cache) and offers
	// it; the peer now at the address declines to resume and does a full handshake as impostor <x>
	"after-session:honest", "after-session:untrusted-ca", "after-session:mixed-ca", "after-session:expired", "after-session:swapped",
	"after-session:single-cert", "after-session:skx-other-key", "after-session:no-enc-key",
	// genuine signing certificate (key held); the encryption certificate comes from a CA that copies the trusted
	// CA's subject name and subject key identifier under another key: issuer name and authority key identifier
	// match the trusted CA, its signature does not
	"forged-ca-enc",
}

func (c02) ID() string    { return "C02" }
func (c02) Level() string { return "fault_enumeration" }
func (c02) Rule() string {
	return "enumerates the impostor catalogue (untrusted CA, expired, not yet valid, wrong name, single certificate, swapped, mixed CAs; ServerKeyExchange signed by another key / over other randoms / over another certificate or other ECDH parameters / corrupted / empty / omitted; no encryption key; ServerKeyExchange signed with the encryption key; no keys at all; unverified session resumed under a verifying configuration; a session resumed by a configuration with another ServerName; a key-less peer resuming with an all-zero master secret after an honest resumption; a control whose Config.Rand hands out 3 bytes per call (the hello's random must be filled); certificates that were in date at an earlier successful connection and are expired at the time now configured, with and without a cached session) x 4 suites x InsecureSkipVerify on/off x both stacks, plus honest controls; thorough repeats it under many seeds (segmentation, schedules, fresh randoms). A scripted server built on the independent reference implementation plays the impostor against a real client and keeps its transcript and keys consistent. Also (after-session:x): the client holds a session from an honest connection to the address and offers it; the peer declines and does a full handshake as impostor x (honest control, untrusted CA, mixed CA, expired, swapped, single certificate, other signing key, no encryption key). Impostor forged-ca-enc: genuine signing certificate (key held) with an encryption certificate from a CA that copies the trusted CA's subject name and subject key identifier under another key. distinct = distinct (stack, suite, verify flag, impostor, outcome); non-trivial = the scripted flow reached the deviating step"
}
func (c02) Components() (real, stub []string) {
	return []string{"tlcp/dtlcp client (instrumented): certificate verification, key agreement checks, Finished check, session cache"},
		[]string{"server: scripted peer on package ref (deliberately deviating)", "transport, clock, randomness, scheduler"}
}
func (c02) Assumptions() []string {
	return []string{"the scripted peer is correct where it is honest (the honest controls must complete and exchange data, which also validates it)", "static PKI judged at 2030-01-01, the date the configurations report; the wall clock of the simulation reads 2024 (inside the validity of the expired fixtures)"}
}

var (
	c02Once sync.Once
	c02List []c02Params
)

func c02Cases() []c02Params {
	c02Once.Do(func() {
		for _, st := range []string{TLCP, DTLCP} {
			for _, su := range AllSuites {
				for _, skip := range []bool{false, true} {
					for _, imp := range c02Catalogue {
						c02List = append(c02List, c02Params{Stack: st, Suite: su, SkipVerify: skip, Impostor: imp})
					}
				}
			}
		}
	})
	return c02List
}

func (c02) Count(tier string) int {
	n := len(c02Cases())
	if tier == "thorough" {
		return n * 200
	}
	return n * 2
}
func (c02) Make(tier string, seed uint64, i int) *Case {
	l := c02Cases()
	p := l[i%len(l)]
	p.Seg = (i / len(l)) % 3
	return &Case{Prop: "C02", Index: i, Seed: CaseSeed(seed, "C02", i), P: mustJSON(p)}
}

// c02MustFail says whether the client has to refuse this impostor.
func c02MustFail(imp string, skip bool) bool {
	imp = strings.TrimPrefix(imp, "after-session:")
	switch imp {
	case "honest", "late-honest", "honest-short-rand":
		return false
	case "untrusted-ca", "expired", "not-yet-valid", "wrong-name", "mixed-ca", "forged-ca-enc", "wrong-name-ip", "resume-unverified-mixed", "valid-then-expired", "valid-then-expired-resume", "recent-expired", "resume-other-name":
		return !skip // certificate checks only: acceptable once verification is disabled (keys are held)
	case "resume-unverified":
		return !skip
	case "swapped":
		// both certificates are genuine and the peer holds both keys; what makes it an impostor is that
		// the certificate in the signing position is not a signing certificate. With verification
		// disabled there is nothing left to object to.
		return !skip
	}
	return true
}

func (c02) Run(c *Case, src *vs.Src) *Result {
	r := &Result{}
	p := &c02Params{}
	if err := json.Unmarshal(c.P, p); err != nil {
		r.Infra = "bad params: " + err.Error()
		return r
	}
	r.Sample = p
	sigp := fmt.Sprintf("C02 %s %s skip=%v %s", p.Stack, suiteKind(p.Suite), p.SkipVerify, p.Impostor)
	ecdhe := IsECDHE(p.Suite)
	cc := &EPConf{Suites: []uint16{p.Suite}, ServerName: "server.test", Roots: []string{"ca1"}, SkipVerify: p.SkipVerify}
	if ecdhe {
		cc.Certs = []string{"client_sig", "client_enc"}
	}
	o := &peer.Opts{Suites: []uint16{p.Suite}, Certs: ders("server_sig", "server_enc"), SigKey: sm2Key("server_sig"), EncKey: sm2Key("server_enc"), CAs: subjects("ca1")}
	ownEnc := "server_enc"
	ops := []string{"rCH", "SH", "CERT", "SKX"}
	if ecdhe {
		ops = append(ops, "CR")
	}
	ops = append(ops, "SHD", "rFLIGHT", "CCS", "FIN", "APP", "rAPP")
	dropSKX := func() {
		var out []string
		for _, x := range ops {
			if x != "SKX" {
				out = append(out, x)
			}
		}
		ops = out
	}
	use := func(base string) {
		o.Certs = ders(base+"_sig", base+"_enc")
		o.SigKey, o.EncKey = sm2Key(base+"_sig"), sm2Key(base+"_enc")
		ownEnc = base + "_enc"
	}
	honest := *o
	honestOps := append([]string{}, ops...)
	afterSession := strings.HasPrefix(p.Impostor, "after-session:")
	switch strings.TrimPrefix(p.Impostor, "after-session:") {
	case "untrusted-ca":
		use("server_untrusted")
	case "expired":
		use("server_expired")
	case "not-yet-valid":
		use("server_future")
	case "recent-expired":
		use("server_recent")
	case "late-honest":
		use("server_late")
	case "wrong-name":
		use("server_wrongname")
	case "single-cert":
		o.Certs = ders("server_sig")
	case "swapped":
		o.Certs = ders("server_enc", "server_sig")
		o.SigKey, o.EncKey = sm2Key("server_enc"), sm2Key("server_sig")
		ownEnc = "server_sig"
	case "mixed-ca":
		o.Certs = ders("server_sig", "server_untrusted_enc")
		o.EncKey = sm2Key("server_untrusted_enc")
		ownEnc = "server_untrusted_enc"
	case "forged-ca-enc":
		o.Certs = ders("server_sig", "server_forgedca_enc")
		o.EncKey = sm2Key("server_forgedca_enc")
		ownEnc = "server_forgedca_enc"
	case "skx-other-key":
		o.SigKey = sm2Key("server2_sig")
	case "skx-other-randoms":
		o.SKX = "other-randoms"
		o.ReplayCR, o.ReplaySR = NewDRand(c.Seed, "replay-cr").bytes(32), NewDRand(c.Seed, "replay-sr").bytes(32)
	case "skx-other-cert-params":
		o.SKX = "other-params"
		o.OtherCert = ders("server2_enc")[0]
	case "skx-corrupt":
		o.SKX = "corrupt"
	case "skx-empty":
		o.SKX = "empty"
	case "skx-omitted":
		o.SigKey = nil
		dropSKX()
	case "no-enc-key":
		o.EncKey = nil
		ownEnc = ""
	case "no-keys-skx-omitted":
		o.SigKey, o.EncKey = nil, nil
		ownEnc = ""
		dropSKX()
	case "resume-unverified":
		use("server_untrusted")
	case "resume-unverified-mixed":
		o.Certs = ders("server_sig", "server_untrusted_enc")
		o.EncKey = sm2Key("server_untrusted_enc")
		ownEnc = "server_untrusted_enc"
	case "wrong-name-ip":
		cc.ServerName = "192.0.2.10"
	case "skx-signed-by-enc-key":
		o.SigKey = sm2Key("server_enc")
	case "honest-short-rand":
		cc.ShortRand = true
	case "valid-then-expired", "valid-then-expired-resume":
		cc.RootPool = pool(cc.Roots)
	}
	type connOut struct {
		hsErr    error
		cs       CS
		wrote    error
		readN    int
		readErr  error
		out      *peer.Outcome
		reason   string
		unf      []string
		peerSent []string
		peerRecv []string
		chRandom []byte
	}
	var tcache tlcp.SessionCache
	var dcache dtlcp.SessionCache
	runConn := func(seedOff uint64, cconf *EPConf, opts *peer.Opts, script []string) (*connOut, *World, *Half) {
		w := NewWorld(c.Seed+seedOff, src)
		w.K.MaxElapsed = 30 * time.Second
		env := NewEnv(w)
		if cconf.Cache != "" {
			if tcache == nil {
				tcache, dcache = tlcp.NewLRUSessionCache(8), dtlcp.NewLRUSessionCache(8)
			}
			env.TCaches[cconf.Cache], env.DCaches[cconf.Cache] = tcache, dcache
		}
		h := NewHalf(p.Stack, env, cconf, true, "client")
		if h.Pipe != nil {
			h.Pipe.C.Seg = p.Seg
		}
		if ownEnc != "" {
			h.Peer.OwnEncKey = sm2Key(ownEnc)
		}
		co := &connOut{}
		w.Go("client", func() {
			co.hsErr = h.Real.Handshake()
			if co.hsErr == nil {
				_, co.wrote = h.Real.Write([]byte("secret from the client"))
			}
			// whatever happened, a Read must not hand out data unless the handshake completed
			h.Real.SetReadDeadline(vs.Now().Add(2 * time.Second))
			buf := make([]byte, 256)
			co.readN, co.readErr = h.Real.Read(buf)
			h.Real.Close()
		})
		w.Go("impostor", func() {
			co.out = h.Peer.Run(opts, script)
			co.peerSent = h.Peer.Sent
			co.peerRecv = h.Peer.Received
			if h.Peer.CH != nil {
				co.chRandom = h.Peer.CH.Random
			}
			// a peer that is done (or stuck) goes away
			h.ClosePeerSide()
		})
		co.reason, co.unf = w.Run()
		co.cs = h.Real.CS()
		if h.Net != nil && os.Getenv("VERIF_DEBUG") != "" {
			for _, d := range h.Net.SentLog() {
				fmt.Fprintf(os.Stderr, "dgram dir=%d t=%v len=%d %x\n", d.Dir, d.SentAt, len(d.Data), d.Data[:min(len(d.Data), 40)])
			}
		}
		w.Finish(r, sigp)
		return co, w, h
	}
	var co *connOut
	if p.Impostor == "resume-unverified" || p.Impostor == "resume-unverified-mixed" {
		// connection 1: a client configuration that does not verify creates the session
		c1 := *cc
		c1.SkipVerify, c1.Cache = true, "shared"
		first, _, h1 := runConn(0, &c1, o, ops)
		if first.hsErr != nil || first.reason != vs.Done {
			r.Violate("setup", sigp+" setup-failed", "the unverified first connection failed: %v (%s)", first.hsErr, first.reason)
			return r
		}
		// connection 2: same cache, verification as per case; the impostor resumes
		c2 := *cc
		c2.Cache = "shared"
		o2 := *o
		o2.Resume, o2.Master = true, h1.Peer.Master
		co, _, _ = runConn(1, &c2, &o2, []string{"rCH", "SH", "CCS", "FIN", "rFLIGHT", "APP", "rAPP"})
	} else if afterSession {
		c1 := *cc
		c1.Cache = "shared"
		devEnc := ownEnc
		ownEnc = "server_enc"
		first, _, _ := runConn(0, &c1, &honest, honestOps)
		if first.hsErr != nil || first.reason != vs.Done {
			r.Violate("setup", sigp+" setup-failed", "the honest first connection failed: %v (%s)", first.hsErr, first.reason)
			return r
		}
		ownEnc = devEnc
		co, _, _ = runConn(1, &c1, o, ops)
	} else if p.Impostor == "resume-other-name" {
		c1 := *cc
		c1.Cache = "shared"
		first, _, h1 := runConn(0, &c1, o, ops)
		if first.hsErr != nil || first.reason != vs.Done {
			r.Violate("setup", sigp+" setup-failed", "the first connection (name server.test) failed: %v (%s)", first.hsErr, first.reason)
			return r
		}
		c2 := c1
		c2.ServerName = "other.test"
		o2 := *o
		o2.Resume, o2.Master = true, h1.Peer.Master
		co, _, _ = runConn(1, &c2, &o2, []string{"rCH", "SH", "CCS", "FIN", "rFLIGHT", "APP", "rAPP"})
	} else if p.Impostor == "resume-twice-zero-master" {
		c1 := *cc
		c1.Cache = "shared"
		first, _, h1 := runConn(0, &c1, o, ops)
		if first.hsErr != nil || first.reason != vs.Done {
			r.Violate("setup", sigp+" setup-failed", "the honest full handshake failed: %v (%s)", first.hsErr, first.reason)
			return r
		}
		resumeScript := []string{"rCH", "SH", "CCS", "FIN", "rFLIGHT", "APP", "rAPP"}
		o2 := *o
		o2.Resume, o2.Master = true, h1.Peer.Master
		second, _, _ := runConn(1, &c1, &o2, resumeScript)
		if second.hsErr != nil || second.reason != vs.Done || !second.cs.Resumed {
			r.Violate("setup", sigp+" setup-failed", "the honest resumption failed: %v (%s) resumed=%v", second.hsErr, second.reason, second.cs.Resumed)
			return r
		}
		// the impostor holds no key at all; it knows the session id (public) and guesses a master secret of zeros
		o3 := peer.Opts{Suites: o.Suites, Certs: o.Certs, Resume: true, Master: make([]byte, 48)}
		ownEnc = ""
		co, _, _ = runConn(2, &c1, &o3, resumeScript)
	} else if p.Impostor == "valid-then-expired" || p.Impostor == "valid-then-expired-resume" {
		// connection 1: everything is in order at the configured date
		c1 := *cc
		if p.Impostor == "valid-then-expired-resume" {
			c1.Cache = "shared"
		}
		first, _, h1 := runConn(0, &c1, o, ops)
		if first.hsErr != nil || first.reason != vs.Done {
			r.Violate("setup", sigp+" setup-failed", "the first connection (certificates in date) failed: %v (%s)", first.hsErr, first.reason)
			return r
		}
		// connection 2: same roots, name, certificates and (if any) cache; the configured clock now reads 2046,
		// after the certificates' end in 2045
		c2 := c1
		c2.TimeYear = 2046
		if p.Impostor == "valid-then-expired-resume" {
			o2 := *o
			o2.Resume, o2.Master = true, h1.Peer.Master
			co, _, _ = runConn(1, &c2, &o2, []string{"rCH", "SH", "CCS", "FIN", "rFLIGHT", "APP", "rAPP"})
		} else {
			co, _, _ = runConn(1, &c2, o, ops)
		}
	} else {
		co, _, _ = runConn(0, cc, o, ops)
	}
	r.Key = hashKey(p.Stack, p.Suite, p.SkipVerify, p.Impostor)
	if co.reason == vs.TimeUp && p.Stack == DTLCP && co.hsErr == nil && !co.cs.Done && c02MustFail(p.Impostor, p.SkipVerify) {
		// a datagram client whose peer went away keeps retransmitting until the application gives up:
		// it has not completed, which is all that is required here
		r.Outcome = "completed=false (still retransmitting)"
		return r
	}
	if co.reason != vs.Done {
		pe := "peer still running"
		if co.out != nil {
			pe = fmt.Sprintf("peer stopped at %q: %v; sent %v received %v", co.out.StoppedAt, co.out.Err, co.peerSent, co.peerRecv)
		}
		r.Violate("not-ended", sigp+" not-ended "+co.reason, "run ended with %q, unfinished %v; client handshake err=%v; %s", co.reason, co.unf, co.hsErr, pe)
		return r
	}
	completed := co.hsErr == nil
	mustFail := c02MustFail(p.Impostor, p.SkipVerify)
	r.Outcome = fmt.Sprintf("completed=%v", completed)
	switch {
	case mustFail && completed:
		r.Violate("impostor-accepted", sigp+" accepted", "the client completed the handshake with impostor %q (suite %s, InsecureSkipVerify=%v); peer sent %v", p.Impostor, SuiteName(p.Suite), p.SkipVerify, co.peerSent)
	case !mustFail && !completed:
		r.Violate("honest-rejected", sigp+" rejected", "the client refused a peer it has to accept: %v; peer sent %v, script stopped at %q: %v", co.hsErr, co.peerSent, co.out.StoppedAt, co.out.Err)
	}
	if !completed {
		if co.cs.Done {
			r.Violate("state", sigp+" reports-complete", "Handshake returned %v but HandshakeComplete is true", co.hsErr)
		}
		if co.readN > 0 {
			r.Violate("data-delivered", sigp+" data-delivered", "Read delivered %d bytes although the handshake failed", co.readN)
		}
	} else if !mustFail {
		if p.Impostor == "honest-short-rand" {
			// the random value of the hello must be filled whatever the reader's read sizes: the first four bytes
			// may be the time; of the other 28 at most a few can be zero by chance
			zeros := 0
			for _, b := range co.chRandom[4:] {
				if b == 0 {
					zeros++
				}
			}
			if len(co.chRandom) != 32 || zeros > 12 {
				r.Violate("randomness", sigp+" client-random-not-filled", "with a Config.Rand that hands out 3 bytes per call the ClientHello random is %x (%d zero bytes behind the first four)", co.chRandom, zeros)
			}
		}
		if co.wrote != nil || co.readN == 0 {
			r.Violate("control-data", sigp+" control-data", "accepted peer but data exchange failed: write %v, read n=%d err=%v", co.wrote, co.readN, co.readErr)
		}
		if !co.out.FinishedOK {
			r.Violate("control-finished", sigp+" control-finished", "the client's Finished does not match the scripted server's transcript")
		}
	}
	return r
}

func suiteKind(s uint16) string {
	return SuiteName(s)
}

func (d *DRand) bytes(n int) []byte {
	b := make([]byte, n)
	d.Read(b)
	return b
}
