package props

import (
	"strings"
	"bytes"
	"encoding/json"
	"fmt"
	"time"

	"gitee.com/Trisia/gotlcp/dtlcp"
	"gitee.com/Trisia/gotlcp/vs"

	"verifsim/peer"
	"verifsim/ref"
)

// C17 — fragmented handshake messages reassemble exactly, for any fragmentation.
type c17 struct{}

func init() { Register(c17{}) }

type c17Params struct {
	Mode  string `json:"mode"` // pmtu | frag
	Suite uint16 `json:"suite"`
	Auth  bool   `json:"auth"`
	// pmtu mode
	PMTUC int `json:"pmtu_client,omitempty"`
	PMTUS int `json:"pmtu_server,omitempty"`
	// frag mode
	Role    string `json:"role,omitempty"`    // role of the REAL endpoint
	Target  string `json:"target,omitempty"`  // message kind the scripted peer fragments
	Variant string `json:"variant,omitempty"` // cover | gap | beyond | conflict-first | conflict-later
	Pieces  int    `json:"pieces,omitempty"`
}

func (c17) ID() string    { return "C17" }
func (c17) Level() string { return "exploration" }
func (c17) Rule() string {
	return "(pmtu) real client and server with independently drawn path MTUs from 100 up to 2000 (and the default): completion, negotiated parameters and Finished values recomputed by the wire monitor over the UNFRAGMENTED messages must not depend on either MTU. (frag) a scripted client or server cuts one handshake message (Certificate, ServerKeyExchange, ClientKeyExchange, CertificateVerify, ServerHello) into a seeded fragment set, one fragment per datagram: random partitions in arbitrary order with duplicates and overlaps (cover: must complete), the same with one byte range left out (gap: must not complete), with a fragment reaching beyond the announced length, and with conflicting announced lengths; pending fragment state (hook) stays bounded. Every case also drives the reassembly buffer object (hook) with a seeded fragment set against an interval model: complete exactly when every byte is covered, out-of-range fragments rejected, assembled bytes equal the message. Path MTUs also from 50 (GCM) / 77 (CBC); variant beyond-whole: a single fragment at offset 0 that is longer than the announced length - the endpoint must not answer the flight that contains it. Variant slow: the first ClientHello in three fragments 16 s apart (32 s in all) must still be reassembled. distinct = distinct parameter vectors + fragment plans; non-trivial = the fragmented message reached the endpoint"
}
func (c17) Components() (real, stub []string) {
	return []string{"dtlcp client+server (instrumented): writeHandshakeRecord fragmentation, readHandshake reassembly, fragmentBuffer"},
		[]string{"scripted fragmenting peer (package peer/ref) in frag mode", "datagram network, clock, randomness, scheduler"}
}
func (c17) Assumptions() []string {
	return []string{"a path MTU below 100 is not required to permit a handshake", "an endpoint that fails the handshake on an out-of-range or conflicting fragment has rejected it; what is forbidden is completing with a message that was not fully and consistently covered"}
}
func (c17) Count(tier string) int {
	if tier == "thorough" {
		return 40000
	}
	return 2000
}
func (c17) Make(tier string, seed uint64, i int) *Case {
	return &Case{Prop: "C17", Index: i, Seed: CaseSeed(seed, "C17", i)}
}

func drawC17(src *vs.Src) *c17Params {
	p := &c17Params{Suite: AllSuites[src.Intn(4)], Auth: src.Bool(1, 2)}
	if src.Bool(2, 5) {
		p.Mode = "pmtu"
		pm := func() int {
			switch src.Intn(6) {
			case 0:
				return 0
			case 5:
				// near the smallest workable value: every message, Finished included, is fragmented
				if IsCBC(p.Suite) {
					return 77 + src.Intn(24)
				}
				return 50 + src.Intn(50)
			case 1:
				return 100 + src.Intn(60)
			case 2:
				return 160 + src.Intn(400)
			default:
				return 100 + src.Intn(1900)
			}
		}
		p.PMTUC, p.PMTUS = pm(), pm()
		return p
	}
	p.Mode = "frag"
	p.Role = pickStr(src, []string{"client", "server"})
	if p.Role == "client" {
		p.Target = pickStr(src, []string{"CERT", "CERT", "SKX", "SH"})
	} else {
		p.Target = pickStr(src, []string{"CKE", "CKE", "CERT", "CV"})
		if p.Target != "CKE" {
			p.Auth = true
		}
	}
	p.Variant = pickStr(src, []string{"cover", "cover", "cover", "gap", "gap", "beyond", "beyond-whole", "slow", "conflict-first", "conflict-later", "seq-flood", "interleave", "interleave"})
	p.Pieces = 2 + src.Intn(12)
	if p.Variant == "slow" {
		// the first ClientHello arrives in three fragments 16 s apart: 32 s in all, never 30 s without a fragment
		p.Role, p.Target, p.Pieces = "server", "CH", 3
	}
	return p
}

// c17Plan cuts a body into a fragment list according to the variant; it also reports whether the
// in-bounds, true-length fragments cover every byte.
func c17Plan(src *vs.Src, p *c17Params, body []byte) []peer.FragSpec {
	n := len(body)
	if n < 2 {
		return nil
	}
	if p.Variant == "slow" && n >= 3 {
		a := 1 + src.Intn(n-2)
		b := a + 1 + src.Intn(n-a-1)
		return []peer.FragSpec{{Off: 0, Len: a}, {Off: a, Len: b - a, DelayMs: 16000}, {Off: b, Len: n - b, DelayMs: 16000}}
	}
	if p.Variant == "beyond-whole" {
		// one fragment at offset 0 that carries the whole message and some bytes more than the announced length
		return []peer.FragSpec{{Off: 0, Len: n + 1 + src.Intn(20)}}
	}
	if p.Variant == "seq-flood" {
		// hundreds of one-byte fragments of messages that will never be completed, each under its own
		// message_seq and announcing a large message; then the genuine message in one piece
		var frs []peer.FragSpec
		for i := 0; i < 300+src.Intn(200); i++ {
			frs = append(frs, peer.FragSpec{Off: src.Intn(100), Len: 1, Total: 2000 + src.Intn(60000), SeqOff: 20 + i})
		}
		return append(frs, peer.FragSpec{Off: 0, Len: n})
	}
	// random partition
	cuts := map[int]bool{0: true, n: true}
	for tries := 0; len(cuts) < p.Pieces+1 && len(cuts) < n+1 && tries < 4*p.Pieces+8; tries++ {
		cuts[1+src.Intn(n-1)] = true
	}
	var pts []int
	for i := 0; i <= n; i++ {
		if cuts[i] {
			pts = append(pts, i)
		}
	}
	var frs []peer.FragSpec
	for i := 0; i+1 < len(pts); i++ {
		off, l := pts[i], pts[i+1]-pts[i]
		// overlap: extend some pieces to the left/right
		if src.Bool(1, 4) && off > 0 {
			d := 1 + src.Intn(min(off, 8))
			off, l = off-d, l+d
		}
		if src.Bool(1, 4) && off+l < n {
			l += 1 + src.Intn(min(n-off-l, 8))
		}
		frs = append(frs, peer.FragSpec{Off: off, Len: l})
	}
	switch p.Variant {
	case "gap":
		// drop one piece and trim its neighbours so that at least one byte stays uncovered
		k := src.Intn(len(pts) - 1)
		hole := pts[k]
		var out []peer.FragSpec
		for i, f := range frs {
			if i == k {
				continue
			}
			if f.Off <= hole && f.Off+f.Len > hole {
				if f.Off == hole {
					continue
				}
				f.Len = hole - f.Off
			}
			out = append(out, f)
		}
		frs = out
	case "beyond":
		frs = append(frs, peer.FragSpec{Off: n - 1, Len: 2 + src.Intn(20)})
	case "conflict-first":
		// the first fragment to arrive announces a larger message
		frs = append([]peer.FragSpec{{Off: 0, Len: 1, Total: n + 1 + src.Intn(50)}}, frs...)
		return append(frs[:1], shuffleFrs(src, frs[1:])...)
	case "conflict-later":
		frs = append(frs, peer.FragSpec{Off: 0, Len: 1, Total: n + 1 + src.Intn(50)})
	}
	if p.Variant == "cover" && src.Bool(1, 3) {
		// a fragment without any bytes at offset 0 (legal, useless): it covers nothing
		frs = append(frs, peer.FragSpec{Off: 0, Len: 0})
	}
	// duplicates
	for i := 0; i < 1+src.Intn(3) && len(frs) > 0; i++ {
		frs = append(frs, frs[src.Intn(len(frs))])
	}
	if p.Variant == "conflict-later" {
		// keep the conflicting fragment away from the first position
		first := frs[0]
		rest := shuffleFrs(src, frs[1:])
		return append([]peer.FragSpec{first}, rest...)
	}
	out := shuffleFrs(src, frs)
	if p.Variant == "cover" && p.Role == "server" && len(out) > 1 && src.Bool(1, 3) {
		// (towards a server only: a client that times out inside the server's first flight re-sends its hello
		// under a new message_seq, which is known finding K2 of C19 and would mask what is looked at here)
		// the sender is slow: one fragment (not the first) comes 1.3 s after the one before it - later than the
		// receiver's first retransmission timeout
		out[1+src.Intn(len(out)-1)].DelayMs = 1300
	}
	return out
}

func shuffleFrs(src *vs.Src, f []peer.FragSpec) []peer.FragSpec {
	out := append([]peer.FragSpec(nil), f...)
	for i := len(out) - 1; i > 0; i-- {
		j := src.Intn(i + 1)
		out[i], out[j] = out[j], out[i]
	}
	return out
}

// c17LateFragments: does any fragment arrive after the point where the message is completely covered?
func c17LateFragments(frs []peer.FragSpec, n int) bool {
	for i := range frs {
		if c17Covered(frs[:i+1], n) {
			return i < len(frs)-1
		}
	}
	return false
}

func c17Covered(frs []peer.FragSpec, n int) bool {
	have := make([]bool, n)
	for _, f := range frs {
		if (f.Total != 0 && f.Total != n) || f.SeqOff != 0 {
			continue
		}
		if f.Off+f.Len > n {
			continue
		}
		for i := f.Off; i < f.Off+f.Len; i++ {
			have[i] = true
		}
	}
	for _, h := range have {
		if !h {
			return false
		}
	}
	return true
}

func (c17) Run(c *Case, src *vs.Src) *Result {
	r := &Result{}
	var p *c17Params
	if c.P != nil {
		p = &c17Params{}
		if err := json.Unmarshal(c.P, p); err != nil {
			r.Infra = "bad params: " + err.Error()
			return r
		}
	} else {
		p = drawC17(src)
	}
	r.Sample = p
	defer func() {
		if d := c17BufferModel(src); d != "" {
			r.Violate("buffer-model", "C17 fragment-buffer-object", "%s", d)
		}
	}()
	if p.Mode == "pmtu" {
		return c17PMTU(c, src, p, r)
	}
	return c17Frag(c, src, p, r)
}

func c17PMTU(c *Case, src *vs.Src, p *c17Params, r *Result) *Result {
	sigp := "C17 pmtu"
	w := NewWorld(c.Seed, src)
	w.K.MaxElapsed = 120 * time.Second
	env := NewEnv(w)
	cc := &EPConf{Suites: []uint16{p.Suite}, ServerName: "server.test", PMTU: p.PMTUC}
	sc := &EPConf{Suites: []uint16{p.Suite}, Certs: []string{"server_sig", "server_enc"}, ClientCAs: []string{"ca1"}, PMTU: p.PMTUS}
	if p.Auth || IsECDHE(p.Suite) {
		cc.Certs = []string{"client_sig", "client_enc"}
	}
	if p.Auth {
		sc.Auth = 4
	}
	if IsECDHE(p.Suite) {
		sc.WrapKeys = true
	}
	pair := NewPair(DTLCP, env, cc, sc, "c", "s", "client:1", "server:443")
	out := &HSOut{}
	SpawnHandshakeEcho(w, pair, EchoOpts{Echo: true, C2S: payload(src, 50, 1), S2C: payload(src, 60, 2)}, out, "")
	reason, unf := w.Run()
	w.Finish(r, sigp)
	pj, _ := json.Marshal(p)
	r.Key = hashKey(string(pj))
	r.Outcome = reason
	if reason != vs.Done || out.CErr != nil || out.SErr != nil {
		r.Violate("pmtu-dependent", sigp+" handshake-failed", "handshake with path MTUs client=%d server=%d: run %s, unfinished %v, client %v, server %v", p.PMTUC, p.PMTUS, reason, unf, out.CErr, out.SErr)
		return r
	}
	out.Collect(pair)
	if d := out.CheckAgreement(); d != "" {
		r.Violate("disagree", sigp+" disagree", "%s", d)
	}
	if d := out.CheckEcho(); d != "" {
		r.Violate("echo", sigp+" echo", "%s", d)
	}
	sec := &ref.Secrets{KeyFor: keyResolver("server_sig", "server_enc", "client_sig", "client_enc"), Eph: env.KeyOps.Eph, Sessions: map[string][]byte{}}
	v := pair.Observe(sec)
	for _, e := range v.Errors {
		r.Violate("monitor", sigp+" monitor: "+clipSig(e), "%s", e)
	}
	if len(v.Errors) == 0 {
		for dir := 0; dir < 2; dir++ {
			if !bytes.Equal(v.WireFinished[dir], v.CalcFinished[dir]) {
				r.Violate("finished", sigp+" finished-over-fragments", "Finished of direction %d is %x, the value over the unfragmented transcript is %x", dir, v.WireFinished[dir], v.CalcFinished[dir])
			}
		}
	}
	frag := 0
	for _, d := range pair.Net.SentLog() {
		recs, _ := ref.ParseRecords(d.Data, true)
		for _, rc := range recs {
			if rc.Type == ref.RecHandshake && rc.Epoch == 0 {
				if frs, _ := ref.SplitFragments(rc.Frag); len(frs) > 0 && frs[0].Len < frs[0].Total {
					frag++
				}
			}
		}
	}
	r.Stat("fragments_on_wire", frag)
	r.Trivial = frag == 0
	return r
}

func c17Frag(c *Case, src *vs.Src, p *c17Params, r *Result) *Result {
	sigp := fmt.Sprintf("C17 frag %s %s %s", p.Role, p.Target, p.Variant)
	realIsClient := p.Role == "client"
	w := NewWorld(c.Seed, src)
	w.K.MaxElapsed = 30 * time.Second
	if p.Variant == "slow" {
		w.K.MaxElapsed = 90 * time.Second
	}
	env := NewEnv(w)
	var rc *EPConf
	o := &peer.Opts{Suites: []uint16{p.Suite}}
	requested := p.Auth || IsECDHE(p.Suite)
	if realIsClient {
		rc = &EPConf{Suites: []uint16{p.Suite}, ServerName: "server.test"}
		if requested {
			rc.Certs = []string{"client_sig", "client_enc"}
		}
		o.Certs, o.SigKey, o.EncKey, o.CAs = ders("server_sig", "server_enc"), sm2Key("server_sig"), sm2Key("server_enc"), subjects("ca1")
	} else {
		rc = &EPConf{Suites: []uint16{p.Suite}, Certs: []string{"server_sig", "server_enc"}, ClientCAs: []string{"ca1"}}
		if p.Auth {
			rc.Auth = 4
		}
		if requested {
			o.Certs, o.SigKey = ders("client_sig", "client_enc"), sm2Key("client_sig")
		}
		o.SNI = "server.test"
	}
	h := NewHalf(DTLCP, env, rc, realIsClient, "real")
	if realIsClient {
		h.Peer.OwnEncKey = sm2Key("server_enc")
	} else {
		h.Peer.OwnEncKey = sm2Key("client_enc")
	}
	h.Peer.Sleep = vs.Sleep
	var plan []peer.FragSpec
	var bodyLen int
	targetType := map[string]byte{"CERT": ref.TCertificate, "SKX": ref.TServerKeyExchange, "SH": ref.TServerHello, "CKE": ref.TClientKeyExchange, "CV": ref.TCertificateVerify, "CH": ref.TClientHello}[p.Target]
	recvAtPlan := -1 // how many messages the scripted side had received when it sent the fragment plan
	var stash *peer.FragSpec // interleave: the second part of the target message, sent inside the next message
	h.Peer.FragPlan = func(typ byte, body []byte) []peer.FragSpec {
		// interleaving needs a following handshake message with a body, sent before ChangeCipherSpec, and the
		// earlier message must be the one that completes first (a complete later message overtaking an
		// incomplete earlier one is message reordering, which is C19's subject and a known limitation there)
		interleave := p.Variant == "interleave" && ((realIsClient && (p.Target == "SH" || p.Target == "CERT")) || (!realIsClient && p.Target == "CERT"))
		if interleave {
			switch {
			case typ == targetType && plan == nil && len(body) >= 2:
				// a1 now; a2 travels between the two parts of the following message: a1 b1 a2 b2
				cut := 1 + src.Intn(len(body)-1)
				bodyLen = len(body)
				plan = []peer.FragSpec{{Off: 0, Len: cut}, {Off: cut, Len: len(body) - cut}}
				stash = &peer.FragSpec{Type: typ, SeqOff: -1, Off: cut, Len: len(body) - cut, Total: len(body), Data: append([]byte(nil), body[cut:]...)}
				return plan[:1]
			case stash != nil && len(body) >= 2:
				st := *stash
				stash = nil
				cut := 1 + src.Intn(len(body)-1)
				return []peer.FragSpec{{Off: 0, Len: cut}, st, {Off: cut, Len: len(body) - cut}}
			case stash != nil:
				st := *stash
				stash = nil
				return []peer.FragSpec{st, {Off: 0, Len: len(body)}}
			}
			return nil
		}
		if typ != targetType || plan != nil {
			return nil
		}
		plan = c17Plan(src, p, body)
		bodyLen = len(body)
		recvAtPlan = len(h.Peer.Received)
		return plan
	}
	var realErr error
	maxN, maxB := 0, 0
	sample := func() {
		_, _, _, _, n, b := dtlcp.VerifBuffered(h.DReal)
		if n > maxN {
			maxN = n
		}
		if b > maxB {
			maxB = b
		}
	}
	w.Go("real", func() {
		realErr = h.Real.Handshake()
		h.Real.Close()
	})
	var peerNote string
	w.Go("peer", func() {
		pr := h.Peer
		var ops []string
		if realIsClient {
			ops = []string{"rCH", "SH", "CERT", "SKX"}
			if requested {
				ops = append(ops, "CR")
			}
			ops = append(ops, "SHD", "rFLIGHT", "CCS", "FIN")
		} else {
			ops = []string{"CH", "rFLIGHT"}
			if requested {
				ops = append(ops, "CERT")
			}
			ops = append(ops, "CKE")
			if requested {
				ops = append(ops, "CV")
			}
			ops = append(ops, "CCS", "FIN", "rFLIGHT")
		}
		for _, op := range ops {
			out := pr.Run(o, []string{op})
			sample()
			if out.Err != nil {
				peerNote = fmt.Sprintf("%s: %v", op, out.Err)
				break
			}
		}
		h.ClosePeerSide()
	})
	reason, unf := w.Run()
	w.Finish(r, sigp)
	cs := h.Real.CS()
	completed := realErr == nil && cs.Done
	r.Key = hashKey(p.Role, p.Target, p.Variant, p.Suite, fmt.Sprint(plan))
	r.Outcome = fmt.Sprintf("%s completed=%v", reason, completed)
	r.Trivial = plan == nil
	if plan == nil {
		return r
	}
	covered := c17Covered(plan, bodyLen)
	conflict := p.Variant == "conflict-first" || p.Variant == "conflict-later" || p.Variant == "beyond" || p.Variant == "beyond-whole" || p.Variant == "seq-flood"
	switch {
	case completed && !covered:
		r.Violate("incomplete-accepted", sigp+" completed-without-coverage", "the %s completed although the fragments of %s (%d bytes) do not cover every byte: %v", p.Role, p.Target, bodyLen, plan)
	case !completed && covered && !conflict && c17LateFragments(plan, bodyLen):
		r.Violate("late-duplicate", "C17 frag late-duplicate-fragment", "the %s failed (%v) because fragments of %s (%d bytes) that duplicate already delivered bytes arrived after the message was complete: %v", p.Role, realErr, p.Target, bodyLen, plan)
	case !completed && covered && !conflict:
		r.Violate("complete-rejected", sigp+" covered-but-failed", "the %s failed (%v, run %s, unfinished %v, peer %s) although the fragments of %s (%d bytes) cover every byte: %v", p.Role, realErr, reason, unf, peerNote, p.Target, bodyLen, plan)
	}
	if p.Variant == "beyond-whole" && recvAtPlan >= 0 {
		// the only fragment of the message exceeds the announced length: it is rejected, so the endpoint cannot
		// have gone on to answer the flight that contains it
		for _, k := range h.Peer.Received[recvAtPlan:] {
			if !strings.HasPrefix(k, "ALERT") {
				r.Violate("out-of-bounds-accepted", sigp+" out-of-bounds-fragment-accepted", "the %s went on with the handshake (sent %v) after a fragment of %s at offset 0 with %d bytes, %d more than the announced length", p.Role, h.Peer.Received[recvAtPlan:], p.Target, plan[0].Len, plan[0].Len-bodyLen)
				break
			}
		}
	}
	if maxN > 256 || maxB > 256*(65536+8200) {
		r.Violate("fragment-memory", sigp+" fragment-state-unbounded", "pending fragment state reached %d buffers / %d bytes", maxN, maxB)
	}
	r.Stat("frag_"+p.Variant, 1)
	if completed {
		r.Stat("completed", 1)
	}
	return r
}

// c17BufferModel compares the reassembly buffer object with an interval model on a seeded fragment set.
func c17BufferModel(src *vs.Src) string {
	n := 1 + src.Intn(40)
	if src.Bool(1, 5) {
		n = 1 + src.Intn(3000)
	}
	msg := make([]byte, n)
	for i := range msg {
		msg[i] = byte(src.Intn(256))
	}
	fb := dtlcp.VerifNewFragmentBuffer(n)
	have := make([]bool, n)
	steps := 1 + src.Intn(3*minInt(n, 20)+3)
	for s := 0; s < steps; s++ {
		off := src.Intn(n + 2)
		l := src.Intn(minInt(n, 64) + 3)
		data := make([]byte, l)
		for i := range data {
			if off+i < n {
				data[i] = msg[off+i]
			}
		}
		ok := fb.Add(off, l, data)
		inRange := off+l <= n
		if ok != inRange {
			return fmt.Sprintf("message of %d bytes: fragment off=%d len=%d accepted=%v, in range=%v", n, off, l, ok, inRange)
		}
		if inRange {
			for i := off; i < off+l; i++ {
				have[i] = true
			}
		}
		all := true
		for _, h := range have {
			all = all && h
		}
		if fb.Complete() != all {
			return fmt.Sprintf("message of %d bytes after fragment off=%d len=%d: complete()=%v, every byte covered=%v", n, off, l, fb.Complete(), all)
		}
		if all && !bytes.Equal(fb.Assembled(), msg) {
			return fmt.Sprintf("message of %d bytes: assembled bytes differ from the message", n)
		}
	}
	return ""
}

func minInt(a, b int) int {
	if a < b {
		return a
	}
	return b
}
