package props

import (
	"encoding/binary"
	"encoding/json"
	"fmt"
	"time"

	"gitee.com/Trisia/gotlcp/dtlcp"
	"gitee.com/Trisia/gotlcp/vs"

	"verifsim/ref"
	"verifsim/simnet"
)

// C16 — datagram records are delivered at most once and only if authentic.
type c16 struct{}

func init() { Register(c16{}) }

type c16Params struct {
	Suite    uint16 `json:"suite"`
	Window   int    `json:"window"`   // Config.ReplayWindow (0 = default)
	Sender   int    `json:"sender"`   // 0 client sends, 1 server sends
	API      string `json:"api"`      // readfrom | read
	N        int    `json:"n"`        // records sent
	Deliver  []int  `json:"deliver"`  // delivery sequence: index of sent record; negative: forged variant of record -(i+1)
	SeqExp   int    `json:"seq_exp,omitempty"` // the sender's records start 3 below 2^SeqExp of the 48-bit sequence number (0: they start where the handshake left it)
	// Glue: a forged entry of the delivery sequence travels in ONE datagram together with (in front of) the genuine
	// record that follows it in the sequence
	Glue     bool   `json:"glue,omitempty"`
	ForgeHow []int  `json:"forge"`    // per negative entry (in order): 0 flip body byte, 1 flip tag/mac byte, 2 wrong epoch, 3 seq rewritten to a fresh number, 4 garbage with valid-looking header, 5 version, 6 length beyond the datagram, 7 length 0xffff, 8 datagram shorter than a record header, 9 content type
	Boundary bool   `json:"boundary"` // delivery order built around the window edge
	// OuterWindow != 0 (the server receives): the server's listener configuration has this ReplayWindow (-1: unset)
	// and hands out, through GetConfigForClient, the configuration with Window - the one in force
	OuterWindow int `json:"outer_window,omitempty"`
	// Resumed: the connection resumes a session made by an earlier connection; forgery kind 11 is then a record
	// protected by a third party under the keys that an all-zero master secret and the (public) hello randoms give
	Resumed bool `json:"resumed,omitempty"`
}

func (c16) ID() string    { return "C16" }
func (c16) Level() string { return "exploration" }
func (c16) Rule() string {
	return "after a clean handshake the sender emits N records with unique payloads; the simulated network holds them back and then delivers a seeded sequence: any order, duplicates, replays of much older records, gaps, and forgeries interleaved at any point (flipped ciphertext / tag byte, older / next / far epoch, rewritten sequence number, garbage behind a plausible header, changed version, length field beyond the datagram or 0xffff, datagram shorter than a header, changed content type); ReplayWindow 0 (default), 1..31 (below the floor of 32) and 32..160; on the Read path a forged record may share its datagram with the genuine record behind it; GCM and CBC; receiver through ReadFrom, Read, or both in turn; the records may start just below 2^16, 2^24, 2^32, 2^40 or 2^47 of the 48-bit sequence number (hook VerifSetWriteSeq); some sequences are built around the window edge (newest-W, newest-W+1, ...). Oracle: set-based reference model - every delivered payload was sent, none twice, forgeries never delivered and without effect on later acceptance, and every genuine first arrival that is newer than all accepted or within max(32, min(configured,64)) behind the newest IS delivered. Each case also compares the window object (hook) with the same model on a seeded number sequence. Also: 10-byte Reads (a payload has 24 bytes) alternating with ReadFrom, the Read stream stitched back together; the server's listener configuration may carry another ReplayWindow than the configuration its GetConfigForClient hands out (the latter is in force). Forgeries include reflection: three records the receiver itself sent (held back by the network) are delivered to it. A quarter of the cases run on a resumed connection; forgery kind 11 there is a record protected under the keys that an all-zero master secret and the public hello randoms give. distinct = distinct (parameters, delivery sequence); non-trivial = at least one duplicate or forgery was delivered to a live receiver"
}
func (c16) Components() (real, stub []string) {
	return []string{"dtlcp client+server (instrumented): record authentication, epoch handling, replay window, ReadFrom and Read paths"},
		[]string{"datagram network (hold back, reorder, duplicate, forge)", "clock, randomness, scheduler"}
}
func (c16) Assumptions() []string {
	return []string{"records older than the effective window may be rejected or accepted once; the model only demands at-most-once for them", "forgeries are made without the keys (bit changes of genuine records, header rewrites, garbage)"}
}
func (c16) Count(tier string) int {
	if tier == "thorough" {
		return 60000
	}
	return 2500
}
func (c16) Make(tier string, seed uint64, i int) *Case {
	return &Case{Prop: "C16", Index: i, Seed: CaseSeed(seed, "C16", i)}
}

func drawC16(src *vs.Src) *c16Params {
	p := &c16Params{}
	p.Suite = pickU16(src, []uint16{ECC_GCM, ECC_CBC})
	p.Window = pickInt(src, []int{0, 0, 1, 8, 16, 31, 32, 33, 48, 63, 64, 65, 96, 128, 160})
	p.Sender = src.Intn(2)
	// mixed-small: Read with a 10-byte buffer (a payload has 24 bytes: the rest of the record stays pending) and
	// ReadFrom in turn
	p.API = pickStr(src, []string{"readfrom", "readfrom", "read", "mixed", "mixed-small"})
	// only on the Read path, which takes a datagram record by record; ReadFrom takes one record per datagram
	// (the library's sender never packs application records), so that a datagram changed in transit is, for
	// it, a datagram that did not arrive
	p.Glue = p.API == "read" && src.Bool(1, 2)
	p.SeqExp = pickInt(src, []int{0, 0, 0, 16, 24, 32, 40, 47})
	if p.Sender == 0 && src.Bool(1, 3) {
		p.OuterWindow = pickInt(src, []int{-1, 1, 32, 40, 64, 128})
	}
	p.Resumed = src.Bool(1, 4)
	p.Boundary = src.Bool(1, 2)
	if p.Boundary {
		p.N = 70 + src.Intn(110)
		// deliver the newest first, then probe around the window edge, then duplicates
		newest := p.N - 1
		p.Deliver = append(p.Deliver, newest)
		w := p.Window
		if w == 0 {
			w = 64
		}
		for _, d := range []int{1, 31, 32, 33, 62, 63, 64, 65, w - 1, w, w + 1, 100, 159, 160} {
			if newest-d >= 0 && src.Bool(3, 4) {
				p.Deliver = append(p.Deliver, newest-d)
			}
		}
		// replays of everything delivered so far, in random order
		base := append([]int(nil), p.Deliver...)
		for i := 0; i < len(base); i++ {
			p.Deliver = append(p.Deliver, base[src.Intn(len(base))])
		}
	} else {
		p.N = 4 + src.Intn(40)
		m := p.N + src.Intn(2*p.N)
		for i := 0; i < m; i++ {
			switch src.Intn(8) {
			case 0:
				p.Deliver = append(p.Deliver, -(src.Intn(p.N) + 1))
				p.ForgeHow = append(p.ForgeHow, src.Intn(12)) // 10: one of the receiver's OWN records, sent back to it; 11: see Resumed
			default:
				// mostly increasing with local disorder and repeats
				k := i * p.N / m
				k += src.Intn(7) - 3
				if k < 0 {
					k = 0
				}
				if k >= p.N {
					k = p.N - 1
				}
				p.Deliver = append(p.Deliver, k)
			}
		}
	}
	return p
}

func c16Payload(i int) []byte {
	b := make([]byte, 24)
	binary.BigEndian.PutUint32(b, 0xC16C16C1)
	binary.BigEndian.PutUint32(b[4:], uint32(i))
	for j := 8; j < len(b); j++ {
		b[j] = byte(i*13 + j)
	}
	return b
}

func effWindowMin(configured int) int {
	w := configured
	if w == 0 {
		w = 64
	}
	if w > 64 {
		w = 64
	}
	if w < 32 {
		w = 32
	}
	return w
}

func (c16) Run(c *Case, src *vs.Src) *Result {
	r := &Result{}
	var p *c16Params
	if c.P != nil {
		p = &c16Params{}
		if err := json.Unmarshal(c.P, p); err != nil {
			r.Infra = "bad params: " + err.Error()
			return r
		}
	} else {
		p = drawC16(src)
	}
	r.Sample = p
	wclass := "win<=64"
	if p.Window > 64 {
		wclass = "win>64"
	}
	sigp := fmt.Sprintf("C16 %s %s", p.API, wclass)
	cc := &EPConf{Suites: []uint16{p.Suite}, ServerName: "server.test", ReplayWindow: p.Window}
	sc := &EPConf{Suites: []uint16{p.Suite}, Certs: []string{"server_sig", "server_enc"}, ReplayWindow: p.Window}
	if p.OuterWindow != 0 {
		sc.Clone, sc.OuterWindow = 2, p.OuterWindow
	}
	var resumedCaches [2]dtlcp.SessionCache
	if p.Resumed {
		// the connection that makes the session (fault-free)
		cc.Cache, sc.Cache = "c", "s"
		cacheC, cacheS := dtlcp.NewLRUSessionCache(4), dtlcp.NewLRUSessionCache(4)
		w0 := NewWorld(c.Seed+1, src)
		w0.K.MaxElapsed = 60 * time.Second
		env0 := NewEnv(w0)
		env0.DCaches["c"], env0.DCaches["s"] = cacheC, cacheS
		pair0 := NewPair(DTLCP, env0, cc, sc, "c0", "s0", "client:1", "server:443")
		out0 := &HSOut{}
		SpawnHandshakeEcho(w0, pair0, EchoOpts{}, out0, "")
		reason0, _ := w0.Run()
		w0.Finish(r, sigp)
		if reason0 != vs.Done || out0.CErr != nil || out0.SErr != nil {
			r.Violate("setup", sigp+" setup", "the connection that creates the session failed: %s %v %v", reason0, out0.CErr, out0.SErr)
			return r
		}
		resumedCaches = [2]dtlcp.SessionCache{cacheC, cacheS}
	}
	w := NewWorld(c.Seed, src)
	w.K.MaxElapsed = 120 * time.Second
	env := NewEnv(w)
	if p.Resumed {
		env.DCaches["c"], env.DCaches["s"] = resumedCaches[0], resumedCaches[1]
	}
	pair := NewPair(DTLCP, env, cc, sc, "c", "s", "client:1", "server:443")
	sender, receiver := pair.DC, pair.DS
	sendDir := simnet.DirC2S
	if p.Sender == 1 {
		sender, receiver = pair.DS, pair.DC
		sendDir = simnet.DirS2C
	}
	// hold back the sender's application datagrams
	holding := false
	var held, heldOwn []*simnet.Dgram
	pair.Net.Hook = func(d *simnet.Dgram) []*simnet.Dgram {
		if holding && d.Dir == sendDir {
			held = append(held, d)
			return []*simnet.Dgram{}
		}
		if holding {
			// what the receiver itself sends is kept (and never delivered): material for reflection
			heldOwn = append(heldOwn, d)
			return []*simnet.Dgram{}
		}
		return nil
	}
	ownSent := false
	var sErr, rErr error
	var got [][]byte
	var endErr error
	handshook := 0
	sentAll := false
	injected := false
	w.Go("sender", func() {
		if sErr = sender.Handshake(); sErr != nil {
			return
		}
		handshook++
		vs.Block(func() bool { return handshook == 2 }, time.Time{})
		holding = true
		if p.SeqExp > 0 {
			dtlcp.VerifSetWriteSeq(sender, 1<<uint(p.SeqExp)-3)
		}
		for i := 0; i < p.N; i++ {
			if _, err := sender.WriteTo(c16Payload(i), sender.RemoteAddr()); err != nil {
				sErr = err
				break
			}
		}
		sentAll = true
	})
	w.Go("network", func() {
		vs.Block(func() bool { return sentAll && ownSent }, time.Time{})
		fi := 0
		glued := map[int]bool{}
		for k, d := range p.Deliver {
			var data []byte
			how := 0
			if d >= 0 {
				if d >= len(held) {
					continue
				}
				data = held[d].Data
			} else {
				i := -d - 1
				if i >= len(held) {
					continue
				}
				if fi < len(p.ForgeHow) {
					how = p.ForgeHow[fi]
				}
				fi++
				data = c16Forge(held[i].Data, how, k)
				if how == 10 && len(heldOwn) > 0 {
					data = heldOwn[k%len(heldOwn)].Data
				}
				if how == 11 && p.Resumed {
					if _, _, cr, sr := c10Hellos(true, pair.WireUnits(true)); len(cr) == 32 && len(sr) == 32 {
						data = c16ZeroMasterRecord(p.Suite, p.Sender == 0, cr, sr, uint64(5000+k))
					}
				}
			}
			if p.Glue && d < 0 && how <= 4 && k+1 < len(p.Deliver) && p.Deliver[k+1] >= 0 && p.Deliver[k+1] < len(held) {
				// this forgery and the next (genuine) record share a datagram; the genuine one is not sent again
				data = append(append([]byte{}, data...), held[p.Deliver[k+1]].Data...)
				glued[k+1] = true
			}
			if glued[k] {
				continue
			}
			pair.Net.Inject(&simnet.Dgram{Data: data, From: held[0].From, To: held[0].To, Dir: sendDir, At: vs.Now().Add(time.Duration(k+1) * time.Millisecond)})
		}
		injected = true
	})
	w.Go("receiver", func() {
		if rErr = receiver.Handshake(); rErr != nil {
			return
		}
		handshook++
		// three records of its own (held back by the network), so that there is something to reflect
		vs.Block(func() bool { return holding }, time.Time{})
		for j := 0; j < 3; j++ {
			own := c16Payload(1000 + j)
			binary.BigEndian.PutUint32(own, 0xC16C16C2)
			receiver.WriteTo(own, receiver.RemoteAddr())
		}
		ownSent = true
		vs.Block(func() bool { return injected }, time.Time{})
		buf := make([]byte, 2048)
		var stream []byte // what the small Reads returned, in order
		flush := func() {
			for len(stream) >= 24 {
				got = append(got, append([]byte(nil), stream[:24]...))
				stream = stream[24:]
			}
			if len(stream) > 0 {
				got = append(got, append([]byte(nil), stream...)) // an incomplete payload: reported as never sent
				stream = nil
			}
		}
		for calls := 0; ; calls++ {
			receiver.SetReadDeadline(vs.Now().Add(2 * time.Second))
			var n int
			var err error
			if p.API == "mixed-small" {
				if calls%2 == 0 {
					n, err = receiver.Read(buf[:10])
					stream = append(stream, buf[:n]...)
				} else if n, _, err = receiver.ReadFrom(buf); err == nil {
					got = append(got, append([]byte(nil), buf[:n]...))
				}
				if err != nil {
					// drain what is still pending of the last record
					for k := 0; k < 4 && isTimeout(err); k++ {
						receiver.SetReadDeadline(vs.Now().Add(200 * time.Millisecond))
						m, e := receiver.Read(buf[:10])
						stream = append(stream, buf[:m]...)
						if e != nil {
							break
						}
					}
					flush()
					endErr = err
					return
				}
				if len(got)+len(stream) > 40*len(p.Deliver)+40 {
					endErr = fmt.Errorf("harness: too many deliveries")
					return
				}
				continue
			}
			if p.API == "readfrom" || (p.API == "mixed" && len(got)%2 == 0) {
				n, _, err = receiver.ReadFrom(buf)
			} else {
				n, err = receiver.Read(buf)
			}
			if err != nil {
				endErr = err
				return
			}
			got = append(got, append([]byte(nil), buf[:n]...))
			if len(got) > 10*len(p.Deliver)+10 {
				endErr = fmt.Errorf("harness: too many deliveries")
				return
			}
		}
	})
	reason, unf := w.Run()
	w.Finish(r, sigp)
	pj, _ := json.Marshal(p)
	r.Key = hashKey(string(pj))
	if reason != vs.Done {
		r.Violate("not-ended", sigp+" not-ended "+reason, "run ended with %q, unfinished %v", reason, unf)
		return r
	}
	if sErr != nil || rErr != nil {
		r.Violate("setup", sigp+" setup", "handshake or send failed: %v %v", sErr, rErr)
		return r
	}
	// ---- reference model over the delivery sequence
	wmin := effWindowMin(p.Window)
	delivered := map[int]int{}
	var order []int
	for _, g := range got {
		if len(g) != 24 || binary.BigEndian.Uint32(g) != 0xC16C16C1 || string(g) != string(c16Payload(int(binary.BigEndian.Uint32(g[4:])))) {
			r.Violate("forged-delivered", sigp+" unauthentic-delivered", "a payload that was never sent was handed to the application: %x", g)
			continue
		}
		i := int(binary.BigEndian.Uint32(g[4:]))
		delivered[i]++
		order = append(order, i)
	}
	for i, n := range delivered {
		if n > 1 {
			r.Violate("duplicate", sigp+" delivered-twice", "record %d was delivered %d times (window %d); delivery sequence %v", i, n, p.Window, p.Deliver)
			break
		}
	}
	seen := map[int]bool{}
	maxAcc := -1
	dups, forg := 0, 0
	timedOut := endErr != nil && isTimeout(endErr)
	for _, d := range p.Deliver {
		if d < 0 {
			forg++
			continue
		}
		if d >= len(held) {
			continue
		}
		if seen[d] {
			dups++
			continue
		}
		seen[d] = true
		must := d > maxAcc || maxAcc-d < wmin
		if must && delivered[d] == 0 {
			r.Violate("rejected-genuine", sigp+" genuine-rejected", "record %d arrived for the first time, newest accepted so far %d, effective window at least %d, but it was not delivered; receiver ended with %v; delivery sequence %v", d, maxAcc, wmin, endErr, p.Deliver)
			break
		}
		if delivered[d] > 0 && d > maxAcc {
			maxAcc = d
		}
	}
	if !timedOut {
		r.Violate("receiver-error", sigp+" receiver-error", "the receiver stopped with %v instead of running into the read deadline after the last datagram", endErr)
	}
	r.Trivial = dups+forg == 0
	r.Stat("duplicates_delivered_to_receiver", dups)
	r.Stat("forgeries_delivered_to_receiver", forg)
	r.Outcome = fmt.Sprintf("delivered=%d", len(got))
	// ---- the window object against the same model
	if d := c16WindowModel(src, p.Window); d != "" {
		r.Violate("window-model", fmt.Sprintf("C16 window-object size=%d", p.Window), "%s", d)
	}
	return r
}

func isTimeout(err error) bool {
	ne, ok := err.(interface{ Timeout() bool })
	return ok && ne.Timeout()
}

// c16Forge makes a record that must not authenticate.
func c16Forge(orig []byte, how, salt int) []byte {
	b := append([]byte(nil), orig...)
	if len(b) < 14 {
		return b
	}
	switch how {
	case 0:
		b[13+(salt%(len(b)-13))/2] ^= 0x10
	case 1:
		b[len(b)-1-salt%8] ^= 0x01
	case 2:
		// epoch: an older one, the next one (which a receiver may take for a key change), or a far one
		ep := binary.BigEndian.Uint16(b[3:5])
		switch salt % 3 {
		case 0:
			ep++
		case 1:
			ep ^= 0x01
		default:
			ep += uint16(2 + salt%200)
		}
		binary.BigEndian.PutUint16(b[3:5], ep)
	case 3:
		binary.BigEndian.PutUint16(b[9:11], uint16(5000+salt)) // a fresh, much newer sequence number
	case 4:
		for i := 13; i < len(b); i++ {
			b[i] = byte(i*7 + salt)
		}
	case 5:
		b[1+salt%2] ^= byte(1 << (salt % 8)) // version
	case 6:
		binary.BigEndian.PutUint16(b[11:13], uint16(len(b)-13+1+salt%40)) // announces more than the datagram holds
	case 7:
		binary.BigEndian.PutUint16(b[11:13], 0xffff)
	case 8:
		b = b[:1+salt%12]
	default:
		b[0] = []byte{20, 21, 22, 24, 0, 255}[salt%6] // content type
	}
	return b
}

// c16WindowModel drives dtlcp's replay window object (hook) with a seeded sequence and compares with the set model.
func c16WindowModel(src *vs.Src, size int) string {
	w := dtlcp.VerifNewReplayWindow(size)
	if size == 0 {
		w = dtlcp.VerifNewReplayWindow(64)
	}
	wmin := effWindowMin(size)
	accepted := map[uint64]bool{}
	var maxAcc uint64
	have := false
	cur := uint64(1 + src.Intn(200))
	for i := 0; i < 300; i++ {
		var s uint64
		switch src.Intn(6) {
		case 0:
			cur += uint64(1 + src.Intn(3))
			s = cur
		case 1:
			cur += uint64(60 + src.Intn(120))
			s = cur
		case 2:
			d := uint64(src.Intn(170))
			if d > cur {
				d = cur
			}
			s = cur - d
		default:
			d := uint64(pickInt(src, []int{0, 1, 31, 32, 33, 63, 64, 65, 127, 128, 159, 160}))
			if d > cur {
				d = cur
			}
			s = cur - d
		}
		ok := w.Check(s)
		if ok && accepted[s] {
			return fmt.Sprintf("window of size %d accepted sequence number %d twice (newest %d)", size, s, maxAcc)
		}
		if !ok && !accepted[s] && (!have || s > maxAcc || maxAcc-s < uint64(wmin)) {
			return fmt.Sprintf("window of size %d rejected the first arrival of %d although the newest accepted is %d (effective window at least %d)", size, s, maxAcc, wmin)
		}
		if ok {
			accepted[s] = true
			if !have || s > maxAcc {
				maxAcc, have = s, true
			}
		}
	}
	return ""
}

// c16ZeroMasterRecord: an application record as a third party can build it who assumes that the master secret is 48
// zero bytes (the hello randoms are public): authentic only if the connection's keys really come from such a secret.
func c16ZeroMasterRecord(suite uint16, fromClient bool, cr, sr []byte, seq uint64) []byte {
	k := ref.KeyBlock(suite, make([]byte, 48), cr, sr)
	prot := ref.NewProtect(suite, k.ServerKey, k.ServerIV, k.ServerMAC)
	if fromClient {
		prot = ref.NewProtect(suite, k.ClientKey, k.ClientIV, k.ClientMAC)
	}
	payload := c16Payload(int(seq))
	binary.BigEndian.PutUint32(payload, 0xC16C16C3)
	sb := ref.SeqBytes(true, 1, seq)
	explicit := sb[:]
	if !prot.IsGCM() {
		explicit = make([]byte, 16)
		copy(explicit, sb[:])
	}
	return ref.BuildRecord(true, ref.RecAppData, 0x0101, 1, seq, prot.Seal(sb, ref.RecAppData, 0x0101, payload, explicit))
}
