package props

import (
	stdnet "net"
	"bytes"
	"encoding/json"
	"fmt"
	"strings"
	"sync"
	"time"

	"gitee.com/Trisia/gotlcp/dtlcp"
	"gitee.com/Trisia/gotlcp/vs"

	"verifsim/peer"
	"verifsim/ref"
	"verifsim/simnet"
)

// C18 — a DTLCP server commits and amplifies nothing before a valid cookie returns.
type c18 struct{}

func init() { Register(c18{}) }

type c18Params struct {
	Variant string `json:"variant"`
	Secret  bool   `json:"secret"` // CookieSecret configured
	Suite   uint16 `json:"suite"`
	I       int    `json:"i,omitempty"`
	Mask    int    `json:"mask,omitempty"`
}

func (c18) ID() string    { return "C18" }
func (c18) Level() string { return "fault_enumeration" }
func (c18) Rule() string {
	return "enumerates hostile ClientHello behaviours against real DTLCP servers whose private keys are counting wrappers: repeated cookie-less hellos; a cookie-less hello naming a session the server has cached (its suite offered or not); a valid cookie presented with each covered field changed (version, random, session id, cipher suites, compression methods) or with the same bytes but a field boundary moved; every single-byte change (two masks), truncation, extension and removal of a valid cookie; the cookie replayed from another source address (second server connection with the same secret) and to a server with a different / per-connection random secret (no secret given as nil or as an empty slice; with a Config.Rand that returns short reads the secret is still drawn in full); positive controls (same address, hello and secret on a fresh server connection must be accepted and then touch the keys); x configured secret or none x ECC and ECDHE suite. Also: both server connections accepted from one dtlcp.NewListener over one Config without a secret (still one secret per connection); the valid cookie presented with a value appended to the suite list (0x00ff, an unknown value, 0) or to the compression list. Also two configured secrets of 48 bytes that differ only behind byte 32. distinct = distinct (variant, parameters); non-trivial = the server answered the hello under test"
}
func (c18) Components() (real, stub []string) {
	return []string{"dtlcp server (instrumented): cookie generation / verification, cookie loop, certificate selection, key use"},
		[]string{"clients: scripted on package ref, from chosen source addresses", "datagram network, clock, randomness", "server private keys: counting wrappers around the real keys"}
}
func (c18) Assumptions() []string {
	return []string{"'no private-key operation' is observed through wrappers implementing crypto.Signer / crypto.Decrypter / SM2KeyAgreement", "two server connections that have no configured secret draw from different random streams, as they would from crypto/rand"}
}

var (
	c18Once sync.Once
	c18List []c18Params
)

func c18Cases() []c18Params {
	c18Once.Do(func() {
		for _, secret := range []bool{true, false} {
			for _, su := range []uint16{ECC_GCM, ECDHE_GCM} {
				add := func(v string, i, m int) {
					c18List = append(c18List, c18Params{Variant: v, Secret: secret, Suite: su, I: i, Mask: m})
				}
				add("cookieless-repeat", 5, 0)
				add("cookieless-repeat", 40, 0)
				add("cookieless-then-silent", 0, 0)
				add("valid-control", 0, 0)
				for _, f := range []string{"vers", "random", "session", "suites", "suites-order", "compression", "shift-sid-suites", "shift-suites-comp", "suites-scsv", "suites-append-unknown", "suites-append-zero", "compression-append"} {
					add("field:"+f, 0, 0)
				}
				for i := 0; i < 32; i++ {
					add("cookie-byte", i, 0x01)
					add("cookie-byte", i, 0x80)
				}
				add("cookie-trunc", 31, 0)
				add("cookie-trunc", 1, 0)
				add("cookie-extend", 0, 0)
				add("cookie-zero", 0, 0)
				add("other-address", 0, 0)
				add("other-server", 0, 0)
				if secret {
					// two configured secrets of 48 bytes that differ only behind byte 32
					add("other-server-long-secret", 0, 0)
				}
				if !secret {
					// both server connections are accepted from ONE dtlcp listener with one Config that names no
					// secret: still one random secret per connection
					add("other-server-same-listener", 0, 0)
					// the server's Config.Rand hands out 3 bytes per call: the per-connection secret must still
					// be drawn in full (at least 32 bytes of randomness taken before the first HelloVerifyRequest)
					add("short-rand-secret", 0, 0)
					// "no secret configured" given as an empty, non-nil slice: still one random secret per connection
					add("other-server-empty-secret", 0, 0)
				}
				// a cookie-less hello that names a session the server has cached (I = 0: offering the session's
				// suite, 1: not offering it): resumption or not, nothing but a HelloVerifyRequest comes back
				add("cookieless-session", 0, 0)
				add("cookieless-session", 1, 0)
			}
		}
	})
	return c18List
}

func (c18) Count(tier string) int {
	n := len(c18Cases())
	if tier == "thorough" {
		return n * 100
	}
	return n
}
func (c18) Make(tier string, seed uint64, i int) *Case {
	l := c18Cases()
	return &Case{Prop: "C18", Index: i, Seed: CaseSeed(seed, "C18", i), P: mustJSON(l[i%len(l)])}
}

// c18Client is a scripted client at one source address talking to one server connection.
type c18Client struct {
	p    *peer.Peer
	sock *simnet.PacketConn
}

// hello sends a ClientHello and returns the handshake messages that came back within the read timeout.
func (c *c18Client) hello(h *ref.ClientHello) (kinds []string, hvrCookie []byte, sentLen int, err error) {
	body := h.Body(true)
	sentLen = 13 + 12 + len(body)
	if err = c.p.SendMsg(ref.TClientHello, body, true); err != nil {
		return
	}
	for {
		m, e := c.p.ReadHandshake()
		if e != nil {
			return kinds, hvrCookie, sentLen, nil
		}
		kinds = append(kinds, ref.MsgName(m.Type))
		if m.Type == ref.THelloVerifyRequest {
			_, hvrCookie, _ = ref.ParseHelloVerifyRequest(m.Body)
		}
	}
}

func (c18) Run(c *Case, src *vs.Src) *Result {
	r := &Result{}
	p := &c18Params{}
	if err := json.Unmarshal(c.P, p); err != nil {
		r.Infra = "bad params: " + err.Error()
		return r
	}
	r.Sample = p
	sigp := fmt.Sprintf("C18 %s secret=%v", p.Variant, p.Secret)
	var cachedID []byte
	var sharedCache dtlcp.SessionCache
	if p.Variant == "cookieless-session" {
		// an honest full handshake first, so that the servers' shared cache holds a session
		w0 := NewWorld(c.Seed+1, src)
		w0.K.MaxElapsed = 30 * time.Second
		env0 := NewEnv(w0)
		env0.DCaches["s"] = dtlcp.NewLRUSessionCache(8)
		sharedCache = env0.DCaches["s"]
		cc0 := &EPConf{Suites: []uint16{p.Suite}, ServerName: "server.test", Certs: []string{"client_sig", "client_enc"}}
		sc0 := &EPConf{Suites: []uint16{p.Suite}, Certs: []string{"server_sig", "server_enc"}, ClientCAs: []string{"ca1"}, Cache: "s"}
		pair0 := NewPair(DTLCP, env0, cc0, sc0, "c0", "s0", "10.0.0.1:4000", "server0:443")
		out0 := &HSOut{}
		SpawnHandshakeEcho(w0, pair0, EchoOpts{}, out0, "")
		reason0, _ := w0.Run()
		w0.Finish(r, sigp)
		_, cachedID, _, _ = c10Hellos(true, pair0.WireUnits(true))
		if reason0 != vs.Done || out0.CErr != nil || out0.SErr != nil || len(cachedID) == 0 {
			r.Violate("setup", sigp+" setup-failed", "the handshake that fills the server's session cache failed: %s %v %v", reason0, out0.CErr, out0.SErr)
			return r
		}
	}
	w := NewWorld(c.Seed, src)
	w.K.MaxElapsed = 60 * time.Second
	env := NewEnv(w)
	if sharedCache != nil {
		env.DCaches["s"] = sharedCache
	}
	net := simnet.NewNet()
	var lst stdnet.Listener
	var inner *c18Inner
	mkServer := func(name string, local, remote simnet.Addr, secret string) (*dtlcp.Conn, *simnet.PacketConn) {
		sc := &EPConf{Suites: []uint16{p.Suite}, Certs: []string{"server_sig", "server_enc"}, ClientCAs: []string{"ca1"}, WrapKeys: true, CookieSecret: secret}
		if p.Variant == "other-server-empty-secret" {
			sc.CookieSecretEmpty = true
		}
		if p.Variant == "short-rand-secret" {
			sc.ShortRand = true
		}
		if cachedID != nil {
			sc.Cache = "s"
			sc.Suites = []uint16{p.Suite, ECC_CBC}
		}
		sp := net.Listen(local, simnet.DirS2C)
		if p.Variant == "other-server-same-listener" {
			if lst == nil {
				inner = &c18Inner{}
				lst = dtlcp.NewListener(inner, sc.BuildDTLCP(env, "listener"))
			}
			inner.next = c18PC{PacketConn: sp, remote: remote}
			conn, err := lst.Accept()
			if err != nil {
				panic("harness: dtlcp listener Accept: " + err.Error())
			}
			return conn.(*dtlcp.Conn), sp
		}
		return dtlcp.Server(sp, remote, sc.BuildDTLCP(env, name)), sp
	}
	secret1, secret2 := "", ""
	if p.Secret {
		secret1, secret2 = "0123456789abcdef0123456789abcdef", "0123456789abcdef0123456789abcdef"
	}
	if p.Variant == "other-server" && p.Secret {
		secret2 = "another secret, another server.."
	}
	if p.Variant == "other-server-long-secret" {
		secret1 = "0123456789abcdef0123456789abcdef" + "first tail 16 by"
		secret2 = "0123456789abcdef0123456789abcdef" + "other tail 16 by"
	}
	addrA, addrB := simnet.Addr("10.0.0.1:4000"), simnet.Addr("10.0.0.2:4000")
	srv1, sp1 := mkServer("s1", "server1:443", addrA, secret1)
	remote2 := addrA
	if p.Variant == "other-address" {
		remote2 = addrB
	}
	srv2, sp2 := mkServer("s2", "server2:443", remote2, secret2)
	socks := map[simnet.Addr]*simnet.PacketConn{}
	mkClient := func(local, server simnet.Addr, name string) *c18Client {
		sock := socks[local]
		if sock == nil {
			sock = net.Listen(local, simnet.DirC2S)
			socks[local] = sock
		}
		pr := peer.New(true, true, peer.DgramT{P: sock, Remote: server, Timeout: 300 * time.Millisecond, Now: vs.Now}, env.W.Rand(name))
		return &c18Client{p: pr, sock: sock}
	}
	c1 := mkClient(addrA, "server1:443", "c1")
	c2 := mkClient(remote2, "server2:443", "c2")
	var srvErr [2]error
	for i, s := range []*dtlcp.Conn{srv1, srv2} {
		i, s := i, s
		w.Go(fmt.Sprintf("server%d", i+1), func() {
			srvErr[i] = s.Handshake()
			s.Close()
		})
	}
	baseHello := func(pr *peer.Peer) *ref.ClientHello {
		return &ref.ClientHello{Vers: ref.Version, Random: NewDRand(c.Seed, "hello-random").bytes(32), Suites: []uint16{p.Suite, ECC_CBC}, Compression: []byte{0},
			Exts: []ref.Ext{ref.ExtSNI("server.test"), ref.ExtCurves(), ref.ExtSigAlgs()}}
	}
	type obs struct {
		what  string
		kinds []string
	}
	var log []obs
	var verdicts []string
	expectReject := func(what string, kinds []string) {
		log = append(log, obs{what, kinds})
		if len(kinds) != 1 || kinds[0] != "HelloVerifyRequest" {
			verdicts = append(verdicts, fmt.Sprintf("%s: server answered %v, want exactly one HelloVerifyRequest", what, kinds))
		}
	}
	w.Go("clients", func() {
		defer func() {
			// the experiment is over: take the sockets away so that the servers return
			c1.sock.Close()
			c2.sock.Close()
			sp1.Close()
			sp2.Close()
		}()
		h := baseHello(c1.p)
		if strings.HasPrefix(p.Variant, "field:shift-") {
			// a session id to borrow bytes from (unknown to the server: no resumption)
			h.SessionID = NewDRand(c.Seed, "shift-sid").bytes(32)
		}
		if cachedID != nil {
			h.SessionID = cachedID
			if p.I == 1 {
				h.Suites = []uint16{ECC_CBC} // the session's suite is not offered: the server will not resume
			}
		}
		// step 1: cookie-less hello(s)
		n := 1
		if p.Variant == "cookieless-repeat" {
			n = p.I
		}
		var cookie []byte
		for i := 0; i < n; i++ {
			kinds, ck, sent, err := c1.hello(h)
			if err != nil {
				verdicts = append(verdicts, "send failed: "+err.Error())
				return
			}
			expectReject(fmt.Sprintf("cookie-less hello #%d", i), kinds)
			if ck == nil {
				return
			}
			if cookie != nil && !bytes.Equal(cookie, ck) && p.Variant == "cookieless-repeat" {
				// same hello, same address, same connection: the cookie is a function of those
				verdicts = append(verdicts, "the same hello got two different cookies from one server connection")
			}
			cookie = ck
			// amplification: the answer must not be larger than the request
			last := lastFrom(net, simnet.DirS2C)
			if last != nil && len(last.Data) > sent {
				verdicts = append(verdicts, fmt.Sprintf("HelloVerifyRequest datagram (%d bytes) larger than the ClientHello (%d bytes)", len(last.Data), sent))
			}
		}
		if env.KeyOps.Total() != 0 {
			verdicts = append(verdicts, fmt.Sprintf("private keys used before a valid cookie: %+v", *env.KeyOps))
		}
		if p.Variant == "short-rand-secret" {
			if n := env.RandBytes["s1"]; n == nil || *n < 32 {
				got := -1
				if n != nil {
					got = *n
				}
				verdicts = append(verdicts, fmt.Sprintf("no secret configured and a Config.Rand that hands out 3 bytes per call: the server had taken only %d random bytes when it issued its first cookie (a per-connection secret needs at least 32)", got))
			}
			return
		}
		if p.Variant == "cookieless-then-silent" {
			// the sender of the hello goes away: whatever timers the server runs, it must not send anything more
			vs.Sleep(20 * time.Second)
			n, bytesOut := 0, 0
			for _, d := range net.SentLog() {
				if d.Dir == simnet.DirS2C {
					n++
					bytesOut += len(d.Data)
				}
			}
			if n != 1 {
				verdicts = append(verdicts, fmt.Sprintf("one cookie-less ClientHello followed by silence drew %d datagrams (%d bytes) from the server within 20 s", n, bytesOut))
			}
			return
		}
		if p.Variant == "cookieless-repeat" || p.Variant == "cookieless-session" {
			return
		}
		// step 2: the hello under test, with a cookie
		h2 := *h
		h2.Cookie = append([]byte{}, cookie...)
		target := c1
		mustAccept := false
		switch p.Variant {
		case "valid-control":
			mustAccept = true
		case "field:vers":
			h2.Vers = 0x0100
		case "field:random":
			h2.Random = append([]byte{}, h.Random...)
			h2.Random[31] ^= 1
		case "field:session":
			h2.SessionID = bytes.Repeat([]byte{7}, 32)
		case "field:suites":
			h2.Suites = []uint16{p.Suite}
		case "field:suites-order":
			h2.Suites = []uint16{ECC_CBC, p.Suite}
		case "field:compression":
			h2.Compression = []byte{0, 1}
		case "field:shift-sid-suites":
			// the same bytes in the same order, but the boundary between session id and cipher suites moved:
			// the last two bytes of the session id become the first cipher suite
			sid := h.SessionID
			h2.SessionID = append([]byte{}, sid[:30]...)
			h2.Suites = append([]uint16{uint16(sid[30])<<8 | uint16(sid[31])}, h.Suites...)
		case "field:shift-suites-comp":
			// the last cipher suite becomes two compression methods
			last := h.Suites[len(h.Suites)-1]
			h2.Suites = append([]uint16{}, h.Suites[:len(h.Suites)-1]...)
			h2.Compression = append([]byte{byte(last >> 8), byte(last)}, h.Compression...)
		case "cookie-byte":
			h2.Cookie[p.I%len(h2.Cookie)] ^= byte(p.Mask)
		case "cookie-trunc":
			h2.Cookie = h2.Cookie[:p.I]
		case "cookie-extend":
			h2.Cookie = append(h2.Cookie, 0)
		case "cookie-zero":
			h2.Cookie = make([]byte, len(cookie))
		case "other-address":
			target = c2 // same hello and cookie, sent from address B to a server connection bound to B
		case "field:suites-scsv", "field:suites-append-unknown", "field:suites-append-zero":
			// the same list with one more value behind it: the renegotiation signalling value 0x00ff, a value no
			// suite has, or 0x0000
			extra := map[string]uint16{"field:suites-scsv": 0x00ff, "field:suites-append-unknown": 0xfafa, "field:suites-append-zero": 0}[p.Variant]
			h2.Suites = append(append([]uint16{}, h.Suites...), extra)
		case "field:compression-append":
			h2.Compression = append(append([]byte{}, h.Compression...), 0x40)
		case "other-server", "other-server-empty-secret", "other-server-same-listener", "other-server-long-secret":
			target = c2 // same address A, second server connection: same configured secret => stateless cookie valid
			mustAccept = p.Secret && secret1 == secret2
		}
		before := env.KeyOps.Total()
		kinds, _, _, err := target.hello(&h2)
		if err != nil {
			verdicts = append(verdicts, "send failed: "+err.Error())
			return
		}
		log = append(log, obs{"hello under test", kinds})
		accepted := len(kinds) > 0 && kinds[0] == "ServerHello"
		switch {
		case mustAccept && !accepted:
			verdicts = append(verdicts, fmt.Sprintf("control: a valid cookie was not accepted (server answered %v)", kinds))
		case mustAccept && env.KeyOps.Total() == before:
			verdicts = append(verdicts, "control: accepted but the wrapped keys were never used (counter not wired?)")
		case !mustAccept && (p.Variant == "other-server" || p.Variant == "other-server-empty-secret" || p.Variant == "other-server-same-listener") && !p.Secret:
			// per-connection random secrets: the other server must not honour the cookie
			if accepted {
				verdicts = append(verdicts, "a cookie issued by one server connection was accepted by another although no secret is configured")
			}
		case !mustAccept:
			if accepted || len(kinds) != 1 || kinds[0] != "HelloVerifyRequest" {
				verdicts = append(verdicts, fmt.Sprintf("invalid cookie: server answered %v, want exactly one HelloVerifyRequest", kinds))
			}
			if env.KeyOps.Total() != before {
				verdicts = append(verdicts, fmt.Sprintf("private keys used for a hello with an invalid cookie: %+v", *env.KeyOps))
			}
		}
	})
	reason, unf := w.Run()
	w.Finish(r, sigp)
	r.Key = hashKey(p.Variant, p.Secret, p.Suite, p.I, p.Mask)
	r.Outcome = reason
	_ = unf
	if reason == vs.Budget {
		r.Violate("not-ended", sigp+" step-budget", "run did not end")
	}
	for _, v := range verdicts {
		r.Violate("cookie", sigp+" "+clipSig(v), "%s; exchange: %+v", v, log)
	}
	// no certificate or key-exchange bytes may leave the server before a valid cookie: every datagram
	// of a server that never accepted must be a lone HelloVerifyRequest
	r.Trivial = len(log) == 0
	return r
}

func lastFrom(n *simnet.Net, dir int) *simnet.Dgram {
	var last *simnet.Dgram
	for _, d := range n.SentLog() {
		if d.Dir == dir {
			last = d
		}
	}
	return last
}

// c18Inner is the packet listener under a dtlcp listener: Accept hands out the connection put into next.
type c18Inner struct{ next stdnet.Conn }

func (l *c18Inner) Accept() (stdnet.Conn, error) { return l.next, nil }
func (l *c18Inner) Close() error                  { return nil }
func (l *c18Inner) Addr() stdnet.Addr             { return simnet.Addr("listener:443") }

// c18PC: a connected datagram socket as a packet listener hands it out (net.Conn and net.PacketConn).
type c18PC struct {
	*simnet.PacketConn
	remote stdnet.Addr
}

func (c c18PC) Read(b []byte) (int, error)  { n, _, err := c.PacketConn.ReadFrom(b); return n, err }
func (c c18PC) Write(b []byte) (int, error) { return c.PacketConn.WriteTo(b, c.remote) }
func (c c18PC) RemoteAddr() stdnet.Addr     { return c.remote }
