package ref

import (
	"encoding/binary"
	"errors"
)

// Handshake message types.
const (
	TClientHello        = 1
	TServerHello        = 2
	THelloVerifyRequest = 3
	TCertificate        = 11
	TServerKeyExchange  = 12
	TCertificateRequest = 13
	TServerHelloDone    = 14
	TCertificateVerify  = 15
	TClientKeyExchange  = 16
	TFinished           = 20
)

func MsgName(t byte) string {
	switch t {
	case TClientHello:
		return "ClientHello"
	case TServerHello:
		return "ServerHello"
	case THelloVerifyRequest:
		return "HelloVerifyRequest"
	case TCertificate:
		return "Certificate"
	case TServerKeyExchange:
		return "ServerKeyExchange"
	case TCertificateRequest:
		return "CertificateRequest"
	case TServerHelloDone:
		return "ServerHelloDone"
	case TCertificateVerify:
		return "CertificateVerify"
	case TClientKeyExchange:
		return "ClientKeyExchange"
	case TFinished:
		return "Finished"
	}
	return "Unknown"
}

// Msg is one (unfragmented) handshake message.
type Msg struct {
	Type byte
	Seq  uint16 // DTLCP message_seq
	Body []byte
}

// Encode gives the canonical unfragmented encoding that enters the transcript:
// type(1) length(3) [message_seq(2) fragment_offset(3)=0 fragment_length(3)=length] body.
func (m Msg) Encode(dtls bool) []byte {
	n := len(m.Body)
	if !dtls {
		out := make([]byte, 4, 4+n)
		out[0] = m.Type
		out[1], out[2], out[3] = byte(n>>16), byte(n>>8), byte(n)
		return append(out, m.Body...)
	}
	out := make([]byte, 12, 12+n)
	out[0] = m.Type
	out[1], out[2], out[3] = byte(n>>16), byte(n>>8), byte(n)
	binary.BigEndian.PutUint16(out[4:6], m.Seq)
	out[9], out[10], out[11] = byte(n>>16), byte(n>>8), byte(n)
	return append(out, m.Body...)
}

// Fragment encodes the fragment [off, off+n) of the message (DTLCP).
func (m Msg) Fragment(off, n int) []byte {
	total := len(m.Body)
	out := make([]byte, 12, 12+n)
	out[0] = m.Type
	out[1], out[2], out[3] = byte(total>>16), byte(total>>8), byte(total)
	binary.BigEndian.PutUint16(out[4:6], m.Seq)
	out[6], out[7], out[8] = byte(off>>16), byte(off>>8), byte(off)
	out[9], out[10], out[11] = byte(n>>16), byte(n>>8), byte(n)
	return append(out, m.Body[off:off+n]...)
}

// SplitStream cuts a TLCP handshake byte stream into messages.
func SplitStream(b []byte) (msgs []Msg, rest []byte) {
	for len(b) >= 4 {
		n := int(b[1])<<16 | int(b[2])<<8 | int(b[3])
		if len(b) < 4+n {
			break
		}
		msgs = append(msgs, Msg{Type: b[0], Body: b[4 : 4+n]})
		b = b[4+n:]
	}
	return msgs, b
}

// Frag is one DTLCP handshake fragment as carried in a record.
type Frag struct {
	Type     byte
	Total    int
	Seq      uint16
	Off, Len int
	Data     []byte
}

// SplitFragments cuts the payload of a DTLCP handshake record into fragments.
func SplitFragments(b []byte) (frs []Frag, rest []byte) {
	for len(b) >= 12 {
		f := Frag{Type: b[0], Total: int(b[1])<<16 | int(b[2])<<8 | int(b[3]), Seq: binary.BigEndian.Uint16(b[4:6]),
			Off: int(b[6])<<16 | int(b[7])<<8 | int(b[8]), Len: int(b[9])<<16 | int(b[10])<<8 | int(b[11])}
		if len(b) < 12+f.Len {
			break
		}
		f.Data = b[12 : 12+f.Len]
		frs = append(frs, f)
		b = b[12+f.Len:]
	}
	return frs, b
}

// Reassembler rebuilds DTLCP messages from fragments (interval bookkeeping per message_seq).
type Reassembler struct {
	pend map[uint32]*pendMsg
	fin  map[uint32]bool
	Done []Msg // completed messages in completion order
}

type pendMsg struct {
	typ  byte
	data []byte
	have []bool
	n    int
}

func NewReassembler() *Reassembler {
	return &Reassembler{pend: map[uint32]*pendMsg{}, fin: map[uint32]bool{}}
}

// Add feeds one fragment; it returns a message when this fragment completed it.
func (r *Reassembler) Add(f Frag) *Msg {
	// gotlcp numbers Finished with message_seq 0, so the sequence number alone does not identify a message
	key := uint32(f.Seq)<<8 | uint32(f.Type)
	if f.Off+f.Len > f.Total || r.fin[key] {
		return nil // out of bounds, or a retransmission of a message already rebuilt
	}
	p := r.pend[key]
	if p == nil {
		p = &pendMsg{typ: f.Type, data: make([]byte, f.Total), have: make([]bool, f.Total)}
		r.pend[key] = p
	}
	if len(p.data) != f.Total {
		return nil
	}
	for i := 0; i < f.Len; i++ {
		if !p.have[f.Off+i] {
			p.have[f.Off+i] = true
			p.n++
		}
		p.data[f.Off+i] = f.Data[i]
	}
	if p.n == f.Total {
		delete(r.pend, key)
		r.fin[key] = true
		m := Msg{Type: p.typ, Seq: f.Seq, Body: p.data}
		r.Done = append(r.Done, m)
		return &m
	}
	return nil
}

// ---------------------------------------------------------------------------
// parsing

type rd struct {
	b   []byte
	err bool
}

func (r *rd) u8() int {
	if len(r.b) < 1 {
		r.err = true
		return 0
	}
	v := r.b[0]
	r.b = r.b[1:]
	return int(v)
}
func (r *rd) u16() int {
	if len(r.b) < 2 {
		r.err = true
		return 0
	}
	v := binary.BigEndian.Uint16(r.b)
	r.b = r.b[2:]
	return int(v)
}
func (r *rd) u24() int {
	if len(r.b) < 3 {
		r.err = true
		return 0
	}
	v := int(r.b[0])<<16 | int(r.b[1])<<8 | int(r.b[2])
	r.b = r.b[3:]
	return v
}
func (r *rd) n(n int) []byte {
	if n < 0 || len(r.b) < n {
		r.err = true
		return nil
	}
	v := r.b[:n]
	r.b = r.b[n:]
	return v
}

type Ext struct {
	Type uint16
	Data []byte
}

type ClientHello struct {
	Vers        uint16
	Random      []byte
	SessionID   []byte
	Cookie      []byte
	Suites      []uint16
	Compression []byte
	Exts        []Ext
}

var ErrParse = errors.New("ref: cannot parse handshake message")

func ParseClientHello(body []byte, dtls bool) (*ClientHello, error) {
	r := &rd{b: body}
	h := &ClientHello{}
	h.Vers = uint16(r.u16())
	h.Random = r.n(32)
	h.SessionID = r.n(r.u8())
	if dtls {
		h.Cookie = r.n(r.u8())
	}
	cs := &rd{b: r.n(r.u16())}
	for len(cs.b) >= 2 {
		h.Suites = append(h.Suites, uint16(cs.u16()))
	}
	h.Compression = r.n(r.u8())
	if r.err {
		return nil, ErrParse
	}
	if len(r.b) > 0 {
		er := &rd{b: r.n(r.u16())}
		for len(er.b) > 0 && !er.err {
			t := er.u16()
			h.Exts = append(h.Exts, Ext{uint16(t), er.n(er.u16())})
		}
		if er.err || r.err {
			return nil, ErrParse
		}
	}
	return h, nil
}

type ServerHello struct {
	Vers        uint16
	Random      []byte
	SessionID   []byte
	Suite       uint16
	Compression byte
	Exts        []Ext
}

func ParseServerHello(body []byte) (*ServerHello, error) {
	r := &rd{b: body}
	h := &ServerHello{}
	h.Vers = uint16(r.u16())
	h.Random = r.n(32)
	h.SessionID = r.n(r.u8())
	h.Suite = uint16(r.u16())
	h.Compression = byte(r.u8())
	if r.err {
		return nil, ErrParse
	}
	if len(r.b) > 0 {
		er := &rd{b: r.n(r.u16())}
		for len(er.b) > 0 && !er.err {
			t := er.u16()
			h.Exts = append(h.Exts, Ext{uint16(t), er.n(er.u16())})
		}
		if er.err || r.err {
			return nil, ErrParse
		}
	}
	return h, nil
}

// ALPN returns the protocol selected in a ServerHello ("" if none).
func (h *ServerHello) ALPN() string {
	for _, e := range h.Exts {
		if e.Type == 16 && len(e.Data) >= 3 {
			n := int(e.Data[2])
			if len(e.Data) >= 3+n {
				return string(e.Data[3 : 3+n])
			}
		}
	}
	return ""
}

func ParseCertificate(body []byte) ([][]byte, error) {
	r := &rd{b: body}
	l := &rd{b: r.n(r.u24())}
	var out [][]byte
	for len(l.b) > 0 && !l.err {
		out = append(out, l.n(l.u24()))
	}
	if r.err || l.err || len(r.b) != 0 {
		return nil, ErrParse
	}
	return out, nil
}

func ParseHelloVerifyRequest(body []byte) (vers uint16, cookie []byte, err error) {
	r := &rd{b: body}
	vers = uint16(r.u16())
	cookie = r.n(r.u8())
	if r.err {
		return 0, nil, ErrParse
	}
	return
}

// ---------------------------------------------------------------------------
// building

type wr struct{ b []byte }

func (w *wr) u8(v int)  { w.b = append(w.b, byte(v)) }
func (w *wr) u16(v int) { w.b = append(w.b, byte(v>>8), byte(v)) }
func (w *wr) u24(v int) { w.b = append(w.b, byte(v>>16), byte(v>>8), byte(v)) }
func (w *wr) raw(p []byte) {
	w.b = append(w.b, p...)
}
func (w *wr) v8(p []byte)  { w.u8(len(p)); w.raw(p) }
func (w *wr) v16(p []byte) { w.u16(len(p)); w.raw(p) }
func (w *wr) v24(p []byte) { w.u24(len(p)); w.raw(p) }

func (h *ClientHello) Body(dtls bool) []byte {
	w := &wr{}
	w.u16(int(h.Vers))
	w.raw(h.Random)
	w.v8(h.SessionID)
	if dtls {
		w.v8(h.Cookie)
	}
	w.u16(2 * len(h.Suites))
	for _, s := range h.Suites {
		w.u16(int(s))
	}
	w.v8(h.Compression)
	if len(h.Exts) > 0 {
		e := &wr{}
		for _, x := range h.Exts {
			e.u16(int(x.Type))
			e.v16(x.Data)
		}
		w.v16(e.b)
	}
	return w.b
}

func (h *ServerHello) Body() []byte {
	w := &wr{}
	w.u16(int(h.Vers))
	w.raw(h.Random)
	w.v8(h.SessionID)
	w.u16(int(h.Suite))
	w.u8(int(h.Compression))
	if len(h.Exts) > 0 {
		e := &wr{}
		for _, x := range h.Exts {
			e.u16(int(x.Type))
			e.v16(x.Data)
		}
		w.v16(e.b)
	}
	return w.b
}

func CertificateBody(certs [][]byte) []byte {
	l := &wr{}
	for _, c := range certs {
		l.v24(c)
	}
	w := &wr{}
	w.v24(l.b)
	return w.b
}

// CertificateRequestBody: certificate_types<1..2^8-1>, certificate_authorities<0..2^16-1>.
func CertificateRequestBody(types []byte, cas [][]byte) []byte {
	w := &wr{}
	w.v8(types)
	l := &wr{}
	for _, c := range cas {
		l.v16(c)
	}
	w.v16(l.b)
	return w.b
}

func HelloVerifyRequestBody(vers uint16, cookie []byte) []byte {
	w := &wr{}
	w.u16(int(vers))
	w.v8(cookie)
	return w.b
}

// ExtSNI / ExtALPN / ExtSigAlgs / ExtCurves build the usual ClientHello extensions.
func ExtSNI(name string) Ext {
	w := &wr{}
	l := &wr{}
	l.u8(0)
	l.v16([]byte(name))
	w.v16(l.b)
	return Ext{0, w.b}
}

func ExtALPN(protos []string) Ext {
	l := &wr{}
	for _, p := range protos {
		l.v8([]byte(p))
	}
	w := &wr{}
	w.v16(l.b)
	return Ext{16, w.b}
}

func ExtSigAlgs() Ext { return Ext{13, []byte{0, 2, 0x07, 0x04}} }
func ExtCurves() Ext  { return Ext{10, []byte{0, 2, 0, 41}} }
