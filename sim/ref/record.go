package ref

import (
	"crypto/cipher"
	"crypto/hmac"
	"crypto/subtle"
	"encoding/binary"
	"errors"
	"fmt"

	"github.com/emmansun/gmsm/sm3"
	"github.com/emmansun/gmsm/sm4"
)

// Record content types.
const (
	RecCCS       = 20
	RecAlert     = 21
	RecHandshake = 22
	RecAppData   = 23
)

const Version = 0x0101

// Record is one record as framed on the wire.
type Record struct {
	Type   byte
	Vers   uint16
	Epoch  uint16 // DTLCP only
	Seq    uint64 // DTLCP: explicit 48-bit sequence number
	Frag   []byte // fragment as on the wire (possibly protected)
	Raw    []byte // header + fragment
	Offset int    // offset of the record in its stream / datagram
}

// HeaderLen of the record layer: 5 (TLCP) or 13 (DTLCP).
func HeaderLen(dtls bool) int {
	if dtls {
		return 13
	}
	return 5
}

// ParseRecords splits a byte string into records. rest is what remains when the
// data ends inside a record (or has an unparsable header).
func ParseRecords(b []byte, dtls bool) (recs []Record, rest []byte) {
	hl := HeaderLen(dtls)
	off := 0
	for len(b)-off >= hl {
		h := b[off:]
		n := int(binary.BigEndian.Uint16(h[hl-2 : hl]))
		if len(h) < hl+n {
			break
		}
		r := Record{Type: h[0], Vers: binary.BigEndian.Uint16(h[1:3]), Frag: h[hl : hl+n], Raw: h[:hl+n], Offset: off}
		if dtls {
			r.Epoch = binary.BigEndian.Uint16(h[3:5])
			r.Seq = uint64(h[5])<<40 | uint64(h[6])<<32 | uint64(h[7])<<24 | uint64(h[8])<<16 | uint64(h[9])<<8 | uint64(h[10])
		}
		recs = append(recs, r)
		off += hl + n
	}
	return recs, b[off:]
}

// BuildRecord frames a fragment.
func BuildRecord(dtls bool, typ byte, vers uint16, epoch uint16, seq uint64, frag []byte) []byte {
	hl := HeaderLen(dtls)
	out := make([]byte, hl, hl+len(frag))
	out[0] = typ
	binary.BigEndian.PutUint16(out[1:3], vers)
	if dtls {
		binary.BigEndian.PutUint16(out[3:5], epoch)
		out[5], out[6], out[7], out[8], out[9], out[10] = byte(seq>>40), byte(seq>>32), byte(seq>>24), byte(seq>>16), byte(seq>>8), byte(seq)
	}
	binary.BigEndian.PutUint16(out[hl-2:hl], uint16(len(frag)))
	return append(out, frag...)
}

// SeqBytes is the 64-bit sequence number that enters MAC / additional data:
// the implicit counter for TLCP, epoch||sequence for DTLCP.
func SeqBytes(dtls bool, epoch uint16, seq uint64) [8]byte {
	var s [8]byte
	if dtls {
		binary.BigEndian.PutUint16(s[0:2], epoch)
		s[2], s[3], s[4], s[5], s[6], s[7] = byte(seq>>40), byte(seq>>32), byte(seq>>24), byte(seq>>16), byte(seq>>8), byte(seq)
	} else {
		binary.BigEndian.PutUint64(s[:], seq)
	}
	return s
}

// Protect is the protection state of one direction.
type Protect struct {
	Suite uint16
	Key   []byte
	IV    []byte // GCM: 4-byte implicit nonce part; CBC: unused after TLS 1.1 (explicit IV per record)
	MAC   []byte
	// ExtraPad: CBC only - whole blocks of padding beyond the minimum (the padding length byte allows up to 255)
	ExtraPad int
	gcm      cipher.AEAD
	blk   cipher.Block
}

func NewProtect(suite uint16, key, iv, mac []byte) *Protect {
	p := &Protect{Suite: suite, Key: key, IV: iv, MAC: mac}
	blk, err := sm4.NewCipher(key)
	if err != nil {
		panic(err)
	}
	p.blk = blk
	if _, _, _, gcm := SuiteParams(suite); gcm {
		p.gcm, err = cipher.NewGCM(blk)
		if err != nil {
			panic(err)
		}
	}
	return p
}

func (p *Protect) IsGCM() bool { return p.gcm != nil }

// Overhead returns explicit-nonce/IV length and the maximum expansion.
func (p *Protect) ExplicitLen() int {
	if p.gcm != nil {
		return 8
	}
	return 16
}

var ErrBadMAC = errors.New("ref: bad record MAC")

func aad(seq [8]byte, typ byte, vers uint16, n int) []byte {
	a := make([]byte, 13)
	copy(a, seq[:])
	a[8] = typ
	binary.BigEndian.PutUint16(a[9:11], vers)
	binary.BigEndian.PutUint16(a[11:13], uint16(n))
	return a
}

// Open authenticates and decrypts a fragment. It returns the plaintext and the
// explicit nonce / IV the record carried.
func (p *Protect) Open(seq [8]byte, typ byte, vers uint16, frag []byte) (plain, explicit []byte, err error) {
	if p.gcm != nil {
		if len(frag) < 8+16 {
			return nil, nil, ErrBadMAC
		}
		explicit = frag[:8]
		nonce := append(append([]byte{}, p.IV...), explicit...)
		ct := frag[8:]
		plain, err = p.gcm.Open(nil, nonce, ct, aad(seq, typ, vers, len(ct)-16))
		if err != nil {
			return nil, explicit, ErrBadMAC
		}
		return plain, explicit, nil
	}
	// CBC with explicit IV, MAC-then-encrypt
	if len(frag) < 16+48 || len(frag)%16 != 0 {
		return nil, nil, ErrBadMAC
	}
	explicit = frag[:16]
	buf := make([]byte, len(frag)-16)
	cipher.NewCBCDecrypter(p.blk, explicit).CryptBlocks(buf, frag[16:])
	padLen := int(buf[len(buf)-1])
	if padLen+1+32 > len(buf) {
		return nil, explicit, ErrBadMAC
	}
	for _, b := range buf[len(buf)-1-padLen:] {
		if int(b) != padLen {
			return nil, explicit, ErrBadMAC
		}
	}
	body := buf[:len(buf)-1-padLen]
	content, mac := body[:len(body)-32], body[len(body)-32:]
	h := hmac.New(sm3.New, p.MAC)
	h.Write(aad(seq, typ, vers, len(content)))
	h.Write(content)
	if subtle.ConstantTimeCompare(h.Sum(nil), mac) != 1 {
		return nil, explicit, ErrBadMAC
	}
	return content, explicit, nil
}

// Seal protects a plaintext. explicit is the 8-byte explicit nonce (GCM) or the
// 16-byte IV (CBC).
func (p *Protect) Seal(seq [8]byte, typ byte, vers uint16, plain, explicit []byte) []byte {
	if p.gcm != nil {
		if len(explicit) != 8 {
			panic(fmt.Sprintf("ref: explicit nonce length %d", len(explicit)))
		}
		nonce := append(append([]byte{}, p.IV...), explicit...)
		out := append([]byte{}, explicit...)
		return p.gcm.Seal(out, nonce, plain, aad(seq, typ, vers, len(plain)))
	}
	if len(explicit) != 16 {
		panic("ref: IV length")
	}
	h := hmac.New(sm3.New, p.MAC)
	h.Write(aad(seq, typ, vers, len(plain)))
	h.Write(plain)
	body := append(append([]byte{}, plain...), h.Sum(nil)...)
	pad := 16 - (len(body)+1)%16
	if pad == 16 {
		pad = 0
	}
	for k := 0; k < p.ExtraPad && pad+16 <= 255; k++ {
		pad += 16
	}
	for i := 0; i <= pad; i++ {
		body = append(body, byte(pad))
	}
	out := make([]byte, 16+len(body))
	copy(out, explicit)
	cipher.NewCBCEncrypter(p.blk, explicit).CryptBlocks(out[16:], body)
	return out
}

// MaxPlaintextFor returns the largest plaintext whose protected record
// (header included) fits into limit bytes.
func MaxPlaintextFor(suite uint16, dtls bool, limit int) int {
	_, _, _, gcm := SuiteParams(suite)
	room := limit - HeaderLen(dtls)
	if gcm {
		return room - 8 - 16
	}
	// IV(16) + blocks; blocks hold plaintext + 32 MAC + at least 1 padding byte
	blocks := (room - 16) / 16
	return blocks*16 - 32 - 1
}
