package ref

import (
	"bytes"
	"crypto"
	"crypto/ecdsa"
	"encoding/hex"
	"fmt"

	"github.com/emmansun/gmsm/ecdh"
	"github.com/emmansun/gmsm/sm2"
	x509 "github.com/emmansun/gmsm/smx509"
)

// Opened is one record as the monitor saw and (if protected) opened it.
type Opened struct {
	Dir       int
	Unit      int // datagram index (DTLCP) or 0
	Type      byte
	Vers      uint16
	Epoch     uint16
	Seq       uint64 // sequence number authenticated with the record
	WireLen   int    // fragment length on the wire
	Protected bool
	Plain     []byte
	Explicit  []byte
	Err       string // non-empty: the monitor could not open the record
}

// Secrets is what the harness knows and hands to the monitor.
type Secrets struct {
	// KeyFor returns the private key for a certificate (DER), or nil.
	KeyFor func(der []byte) crypto.PrivateKey
	// Eph are ephemeral SM2 private keys captured through the SM2KeyAgreement seam.
	Eph []*ecdh.PrivateKey
	// Sessions maps hex(session id) to the master secret of earlier connections.
	Sessions map[string][]byte
}

// View is the monitor's independent derivation for one connection.
type View struct {
	DTLS           bool
	CH             *ClientHello
	SH             *ServerHello
	Resumed        bool
	Suite          uint16
	ServerCerts    [][]byte
	ClientCerts    [][]byte
	PreMaster      []byte
	Master         []byte
	Keys           Keys
	Msgs           [2][]Msg // plaintext-phase and protected handshake messages per direction, in order
	Transcript     []byte   // all messages before the first Finished
	WireFinished   [2][]byte // verify_data carried by the (opened) Finished of each direction
	FinishedSeq    [2]uint16 // DTLCP message_seq of each Finished
	CalcFinished   [2][]byte // verify_data computed from transcript and master secret
	Records        []Opened
	AppData        [2][][]byte // opened application-data payloads per direction
	Alerts         [2][][]byte // alert payloads per direction (opened if protected)
	Errors         []string
	NonceReuse     []string
	HelloVerifySeen bool
}

func (v *View) errf(f string, a ...interface{}) { v.Errors = append(v.Errors, fmt.Sprintf(f, a...)) }

// Observe runs the monitor over the captured wire. units[dir] is the list of
// transport units of that direction: one byte stream for TLCP, one entry per
// datagram for DTLCP (in send order).
func Observe(dtls bool, units [2][][]byte, sec *Secrets) *View {
	v := &View{DTLS: dtls}
	type prot struct {
		rec  Record
		unit int
	}
	var pending [2][]prot
	var plainHS [2][]byte // TLCP plaintext handshake stream
	reasm := [2]*Reassembler{NewReassembler(), NewReassembler()}
	ccsSeen := [2]bool{}
	for dir := 0; dir < 2; dir++ {
		for ui, u := range units[dir] {
			recs, rest := ParseRecords(u, dtls)
			if len(rest) > 0 {
				v.errf("dir %d unit %d: %d trailing bytes that do not form a record", dir, ui, len(rest))
			}
			for _, r := range recs {
				protected := ccsSeen[dir]
				if dtls {
					protected = r.Epoch > 0
				}
				if protected {
					pending[dir] = append(pending[dir], prot{r, ui})
					continue
				}
				o := Opened{Dir: dir, Unit: ui, Type: r.Type, Vers: r.Vers, Epoch: r.Epoch, Seq: r.Seq, WireLen: len(r.Frag), Plain: r.Frag}
				v.Records = append(v.Records, o)
				switch r.Type {
				case RecCCS:
					ccsSeen[dir] = true
				case RecHandshake:
					if dtls {
						frs, rest := SplitFragments(r.Frag)
						if len(rest) > 0 {
							v.errf("dir %d: handshake record with %d stray bytes", dir, len(rest))
						}
						for _, f := range frs {
							if m := reasm[dir].Add(f); m != nil {
								v.Msgs[dir] = append(v.Msgs[dir], *m)
							}
						}
					} else {
						plainHS[dir] = append(plainHS[dir], r.Frag...)
					}
				case RecAlert:
					v.Alerts[dir] = append(v.Alerts[dir], r.Frag)
				case RecAppData:
					v.errf("dir %d: unprotected application data on the wire", dir)
				}
			}
		}
	}
	if !dtls {
		for dir := 0; dir < 2; dir++ {
			msgs, rest := SplitStream(plainHS[dir])
			if len(rest) > 0 {
				v.errf("dir %d: %d bytes of an incomplete plaintext handshake message", dir, len(rest))
			}
			v.Msgs[dir] = msgs
		}
	}
	// --- hellos
	var chMsg, shMsg *Msg
	for i := range v.Msgs[0] {
		m := &v.Msgs[0][i]
		if m.Type == TClientHello {
			chMsg = m // the last ClientHello is the one the handshake continues with
		}
	}
	for i := range v.Msgs[1] {
		m := &v.Msgs[1][i]
		if m.Type == TServerHello && shMsg == nil {
			shMsg = m
		}
		if m.Type == THelloVerifyRequest {
			v.HelloVerifySeen = true
		}
	}
	var err error
	if chMsg != nil {
		if v.CH, err = ParseClientHello(chMsg.Body, dtls); err != nil {
			v.errf("ClientHello: %v", err)
			return v
		}
	}
	if chMsg == nil || shMsg == nil {
		v.errf("no ClientHello/ServerHello pair on the wire")
		return v
	}
	if v.SH, err = ParseServerHello(shMsg.Body); err != nil {
		v.errf("ServerHello: %v", err)
		return v
	}
	v.Suite = v.SH.Suite
	// --- message flow
	var sFlight, cFlight []Msg
	for _, m := range v.Msgs[1] {
		if m.Type != THelloVerifyRequest {
			sFlight = append(sFlight, m)
		}
	}
	seenCH := false
	for i := range v.Msgs[0] {
		m := v.Msgs[0][i]
		if m.Type == TClientHello {
			if &v.Msgs[0][i] == chMsg {
				seenCH = true
			}
			continue
		}
		if seenCH {
			cFlight = append(cFlight, m)
		}
	}
	v.Resumed = len(sFlight) == 1 && len(v.CH.SessionID) > 0 && bytes.Equal(v.CH.SessionID, v.SH.SessionID)
	tr := chMsg.Encode(dtls)
	for _, m := range sFlight {
		tr = append(tr, m.Encode(dtls)...)
	}
	var cke *Msg
	for i, m := range cFlight {
		tr = append(tr, m.Encode(dtls)...)
		switch m.Type {
		case TClientKeyExchange:
			cke = &cFlight[i]
		case TCertificate:
			v.ClientCerts, _ = ParseCertificate(m.Body)
		}
	}
	v.Transcript = tr
	var skx *Msg
	for i, m := range sFlight {
		switch m.Type {
		case TCertificate:
			v.ServerCerts, _ = ParseCertificate(m.Body)
		case TServerKeyExchange:
			skx = &sFlight[i]
		}
	}
	// --- master secret
	if v.Resumed {
		ms := sec.Sessions[hex.EncodeToString(v.SH.SessionID)]
		if ms == nil {
			v.errf("resumed session %x unknown to the monitor", v.SH.SessionID)
			return v
		}
		v.Master = ms
	} else {
		if cke == nil {
			v.errf("no ClientKeyExchange on the wire")
			return v
		}
		if len(v.ServerCerts) < 2 {
			v.errf("server sent %d certificates", len(v.ServerCerts))
			return v
		}
		switch v.Suite {
		case 0xe053, 0xe013:
			v.PreMaster, err = eccPreMaster(cke.Body, v.ServerCerts[1], sec)
		case 0xe051, 0xe011:
			v.PreMaster, err = ecdhePreMaster(skx, cke.Body, v.ServerCerts[1], v.ClientCerts, sec)
		default:
			err = fmt.Errorf("unknown suite %04x", v.Suite)
		}
		if err != nil {
			v.errf("pre-master secret: %v", err)
			return v
		}
		v.Master = MasterSecret(v.PreMaster, v.CH.Random, v.SH.Random)
	}
	v.Keys = KeyBlock(v.Suite, v.Master, v.CH.Random, v.SH.Random)
	// --- open protected records, each direction with its own key
	p := [2]*Protect{NewProtect(v.Suite, v.Keys.ClientKey, v.Keys.ClientIV, v.Keys.ClientMAC), NewProtect(v.Suite, v.Keys.ServerKey, v.Keys.ServerIV, v.Keys.ServerMAC)}
	seenExplicit := [2]map[string]string{{}, {}}
	for dir := 0; dir < 2; dir++ {
		var seq uint64
		var hs []byte
		hsReasm := NewReassembler()
		for _, pr := range pending[dir] {
			r := pr.rec
			o := Opened{Dir: dir, Unit: pr.unit, Type: r.Type, Vers: r.Vers, Epoch: r.Epoch, WireLen: len(r.Frag), Protected: true}
			var sb [8]byte
			if dtls {
				sb = SeqBytes(true, r.Epoch, r.Seq)
				o.Seq = r.Seq
			} else {
				sb = SeqBytes(false, 0, seq)
				o.Seq = seq
				seq++
			}
			plain, explicit, err := p[dir].Open(sb, r.Type, r.Vers, r.Frag)
			o.Explicit = explicit
			if err != nil {
				o.Err = err.Error()
				v.Records = append(v.Records, o)
				v.errf("dir %d: protected record (type %d, seq %d, %d bytes) does not open under that direction's key", dir, r.Type, o.Seq, len(r.Frag))
				continue
			}
			o.Plain = plain
			v.Records = append(v.Records, o)
			k := hex.EncodeToString(explicit)
			fp := hex.EncodeToString(r.Raw)
			if prev, ok := seenExplicit[dir][k]; ok && !(dtls && prev == fp) {
				// a DTLCP retransmission legitimately repeats a record byte for byte; anything else is reuse
				v.NonceReuse = append(v.NonceReuse, fmt.Sprintf("dir %d: explicit nonce/IV %s used for two different records under one key", dir, k))
			}
			seenExplicit[dir][k] = fp
			switch r.Type {
			case RecHandshake:
				if dtls {
					frs, _ := SplitFragments(plain)
					for _, f := range frs {
						if m := hsReasm.Add(f); m != nil {
							v.Msgs[dir] = append(v.Msgs[dir], *m)
							if m.Type == TFinished && v.WireFinished[dir] == nil {
								v.WireFinished[dir] = m.Body
								v.FinishedSeq[dir] = m.Seq
							}
						}
					}
				} else {
					hs = append(hs, plain...)
					msgs, rest := SplitStream(hs)
					hs = rest
					for _, m := range msgs {
						v.Msgs[dir] = append(v.Msgs[dir], m)
						if m.Type == TFinished && v.WireFinished[dir] == nil {
							v.WireFinished[dir] = m.Body
						}
					}
				}
			case RecAppData:
				v.AppData[dir] = append(v.AppData[dir], plain)
			case RecAlert:
				v.Alerts[dir] = append(v.Alerts[dir], plain)
			}
		}
	}
	// --- Finished values: the first one over the transcript, the second one over the transcript
	// plus the first Finished message as it was sent
	first, second := 0, 1
	if v.Resumed {
		first, second = 1, 0
	}
	v.CalcFinished[first] = Finished(v.Master, first == 0, tr)
	fm := Msg{Type: TFinished, Seq: v.FinishedSeq[first], Body: v.WireFinished[first]}
	v.CalcFinished[second] = Finished(v.Master, second == 0, append(append([]byte{}, tr...), fm.Encode(dtls)...))
	return v
}

func nextSeq(flight []Msg) uint16 {
	if len(flight) == 0 {
		return 0
	}
	return flight[len(flight)-1].Seq + 1
}

func nextSeqC(ch *Msg, flight []Msg) uint16 {
	if len(flight) == 0 {
		return ch.Seq + 1
	}
	return flight[len(flight)-1].Seq + 1
}

// eccPreMaster opens ClientKeyExchange with the server's encryption key.
func eccPreMaster(ckeBody, encCert []byte, sec *Secrets) ([]byte, error) {
	if len(ckeBody) < 2 {
		return nil, fmt.Errorf("short ClientKeyExchange")
	}
	n := int(ckeBody[0])<<8 | int(ckeBody[1])
	if n != len(ckeBody)-2 {
		return nil, fmt.Errorf("ClientKeyExchange length field %d, body %d", n, len(ckeBody)-2)
	}
	k := sec.KeyFor(encCert)
	sk, ok := k.(*sm2.PrivateKey)
	if !ok {
		return nil, fmt.Errorf("no SM2 private key for the server encryption certificate")
	}
	pm, err := sk.Decrypt(nil, ckeBody[2:], sm2.ASN1DecrypterOpts)
	if err != nil {
		return nil, err
	}
	if len(pm) != 48 {
		return nil, fmt.Errorf("pre-master secret has %d bytes", len(pm))
	}
	return pm, nil
}

func pubOf(der []byte) (*ecdh.PublicKey, error) {
	c, err := x509.ParseCertificate(der)
	if err != nil {
		return nil, err
	}
	pk, ok := c.PublicKey.(*ecdsa.PublicKey)
	if !ok {
		return nil, fmt.Errorf("certificate key is %T", c.PublicKey)
	}
	return sm2.PublicKeyToECDH(pk)
}

// ecdhePreMaster recomputes the SM2 key agreement from one side's static and
// ephemeral private keys (captured through the SM2KeyAgreement seam) and the
// other side's public values taken from the wire.
func ecdhePreMaster(skx *Msg, ckeBody, serverEnc []byte, clientCerts [][]byte, sec *Secrets) ([]byte, error) {
	if skx == nil {
		return nil, fmt.Errorf("no ServerKeyExchange")
	}
	if len(clientCerts) < 2 {
		return nil, fmt.Errorf("client sent %d certificates", len(clientCerts))
	}
	b := skx.Body
	if len(b) < 4 || len(b) < 4+int(b[3]) {
		return nil, fmt.Errorf("short ServerKeyExchange")
	}
	sTmp, err := ecdh.P256().NewPublicKey(b[4 : 4+int(b[3])])
	if err != nil {
		return nil, err
	}
	cb := ckeBody
	if len(cb) == 71 { // vector form: 2-byte length prefix
		cb = cb[2:]
	}
	if len(cb) != 69 || int(cb[3]) != 65 {
		return nil, fmt.Errorf("ClientKeyExchange has %d bytes", len(ckeBody))
	}
	cTmp, err := ecdh.P256().NewPublicKey(cb[4:])
	if err != nil {
		return nil, err
	}
	sPub, err := pubOf(serverEnc)
	if err != nil {
		return nil, err
	}
	cPub, err := pubOf(clientCerts[1])
	if err != nil {
		return nil, err
	}
	for _, e := range sec.Eph {
		ep := e.PublicKey().Bytes()
		switch {
		case bytes.Equal(ep, sTmp.Bytes()):
			sk, ok := sec.KeyFor(serverEnc).(*sm2.PrivateKey)
			if !ok {
				return nil, fmt.Errorf("no key for server encryption certificate")
			}
			prv, err := sk.ECDH()
			if err != nil {
				return nil, err
			}
			z, err := prv.SM2MQV(e, cPub, cTmp)
			if err != nil {
				return nil, err
			}
			return z.SM2SharedKey(false, 48, sPub, cPub, nil, nil)
		case bytes.Equal(ep, cTmp.Bytes()):
			ck, ok := sec.KeyFor(clientCerts[1]).(*sm2.PrivateKey)
			if !ok {
				return nil, fmt.Errorf("no key for client encryption certificate")
			}
			prv, err := ck.ECDH()
			if err != nil {
				return nil, err
			}
			z, err := prv.SM2MQV(e, sPub, sTmp)
			if err != nil {
				return nil, err
			}
			return z.SM2SharedKey(true, 48, cPub, sPub, nil, nil)
		}
	}
	return nil, fmt.Errorf("no captured ephemeral key matches the wire")
}
