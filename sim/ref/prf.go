// Package ref is an independent reading of GB/T 38636-2020 (TLCP) and
// GM/T 0128 (DTLCP) used as oracle and as scripted peer. It shares no code with
// gotlcp; it uses only gmsm's primitives (SM2, SM3, SM4) and the Go standard
// library.
package ref

import (
	"crypto/hmac"

	"github.com/emmansun/gmsm/sm3"
)

// PSM3 is P_hash(secret, seed) with HMAC-SM3 (GB/T 38636 6.5 / RFC 5246 section 5).
func PSM3(secret, seed []byte, n int) []byte {
	out := make([]byte, 0, n+32)
	h := hmac.New(sm3.New, secret)
	h.Write(seed)
	a := h.Sum(nil) // A(1)
	for len(out) < n {
		h.Reset()
		h.Write(a)
		h.Write(seed)
		out = h.Sum(out)
		h.Reset()
		h.Write(a)
		a = h.Sum(nil)
	}
	return out[:n]
}

// PRF(secret, label, seed) = P_SM3(secret, label || seed).
func PRF(secret []byte, label string, seed []byte, n int) []byte {
	ls := append([]byte(label), seed...)
	return PSM3(secret, ls, n)
}

// MasterSecret = PRF(pre_master, "master secret", client_random || server_random)[0..47].
func MasterSecret(pre, clientRandom, serverRandom []byte) []byte {
	seed := append(append([]byte{}, clientRandom...), serverRandom...)
	return PRF(pre, "master secret", seed, 48)
}

// Keys is the key block cut in the standard's order.
type Keys struct {
	ClientMAC, ServerMAC []byte
	ClientKey, ServerKey []byte
	ClientIV, ServerIV   []byte
}

// SuiteParams: MAC key length, cipher key length, IV length.
func SuiteParams(suite uint16) (macLen, keyLen, ivLen int, gcm bool) {
	switch suite {
	case 0xe053, 0xe051: // *_SM4_GCM_SM3
		return 0, 16, 4, true
	case 0xe013, 0xe011: // *_SM4_CBC_SM3
		return 32, 16, 16, false
	}
	panic("ref: unknown suite")
}

// KeyBlock = PRF(master, "key expansion", server_random || client_random), cut as
// client MAC, server MAC, client key, server key, client IV, server IV.
func KeyBlock(suite uint16, master, clientRandom, serverRandom []byte) Keys {
	macLen, keyLen, ivLen, _ := SuiteParams(suite)
	seed := append(append([]byte{}, serverRandom...), clientRandom...)
	kb := PRF(master, "key expansion", seed, 2*macLen+2*keyLen+2*ivLen)
	cut := func(n int) []byte { x := kb[:n]; kb = kb[n:]; return x }
	var k Keys
	k.ClientMAC = cut(macLen)
	k.ServerMAC = cut(macLen)
	k.ClientKey = cut(keyLen)
	k.ServerKey = cut(keyLen)
	k.ClientIV = cut(ivLen)
	k.ServerIV = cut(ivLen)
	return k
}

// Finished verify_data = PRF(master, label, SM3(handshake_messages))[0..11].
func Finished(master []byte, client bool, transcript []byte) []byte {
	label := "server finished"
	if client {
		label = "client finished"
	}
	h := sm3.Sum(transcript)
	return PRF(master, label, h[:], 12)
}
