// Package fix gives access to the static test PKI (generated once by cmd/mkpki).
// All certificates are judged at the date the configurations report (props.ConfigEpoch, 2030-01-01).
package fix

import (
	"crypto"
	stdx509 "crypto/x509"
	"embed"
	"encoding/pem"
	"fmt"
	"sync"

	x509 "github.com/emmansun/gmsm/smx509"
)

//go:embed pki/*
var files embed.FS

var (
	mu    sync.Mutex
	ders  = map[string][]byte{}
	keys  = map[string]crypto.PrivateKey{}
	certs = map[string]*x509.Certificate{}
)

func read(name string) []byte {
	b, err := files.ReadFile("pki/" + name)
	if err != nil {
		panic(err)
	}
	blk, _ := pem.Decode(b)
	if blk == nil {
		panic("fix: no PEM in " + name)
	}
	return blk.Bytes
}

// DER returns the DER encoding of certificate name (file name without .crt).
func DER(name string) []byte {
	mu.Lock()
	defer mu.Unlock()
	if d, ok := ders[name]; ok {
		return d
	}
	d := read(name + ".crt")
	ders[name] = d
	return d
}

// Cert returns the parsed certificate.
func Cert(name string) *x509.Certificate {
	d := DER(name)
	mu.Lock()
	defer mu.Unlock()
	if c, ok := certs[name]; ok {
		return c
	}
	c, err := x509.ParseCertificate(d)
	if err != nil {
		panic(fmt.Sprintf("fix: parse %s: %v", name, err))
	}
	certs[name] = c
	return c
}

// Key returns the private key belonging to certificate name.
func Key(name string) crypto.PrivateKey {
	mu.Lock()
	defer mu.Unlock()
	if k, ok := keys[name]; ok {
		return k
	}
	d := read(name + ".key")
	var k crypto.PrivateKey
	k, err := x509.ParsePKCS8PrivateKey(d)
	if err != nil {
		k, err = stdx509.ParsePKCS8PrivateKey(d)
		if err != nil {
			panic(fmt.Sprintf("fix: key %s: %v", name, err))
		}
	}
	keys[name] = k
	return k
}

// Pool builds a certificate pool from CA names.
func Pool(names ...string) *x509.CertPool {
	p := x509.NewCertPool()
	for _, n := range names {
		p.AddCert(Cert(n))
	}
	return p
}
