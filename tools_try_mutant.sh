#!/bin/bash
# tools_try_mutant.sh <patch.diff> <prop> [tier] — applies a seeded change to a SCRATCH COPY of /repo
# (so that background runs using /repo are not disturbed), runs the existing test suite on it and then
# the registered check against that copy. Prints: tests=<pass|FAIL> check_rc=<rc>.
set -u
DIFF=$(readlink -f "$1"); PROP=$2; TIER=${3:-quick}
export GOFLAGS=-mod=mod GOPROXY=off GOTOOLCHAIN=local
S=$(mktemp -d /var/tmp/mut.XXXXXX); trap 'rm -rf "$S"' EXIT
rsync -a --exclude .git /repo/ "$S/repo/"
(cd "$S/repo" && git apply --whitespace=nowarn "$DIFF") || { echo "apply failed"; exit 3; }
if [ "${SKIP_TESTS:-}" != 1 ]; then
  # the repository's tests bind fixed TCP ports: run them in a private network namespace
  (cd "$S/repo" && go1.26.8 build ./... && unshare -n sh -c "ip link set lo up; go1.26.8 test -vet=off -count=1 ./..." > "$S/tests.log" 2>&1) && T=pass || T=FAIL
  if [ $T = FAIL ]; then (cd "$S/repo" && unshare -n sh -c "ip link set lo up; go1.26.8 test -vet=off -count=1 ./..." > "$S/tests.log" 2>&1) && T=pass; fi
else T=skipped; fi
VERIF_EVIDENCE_DIR="$S/ev" VERIF_REPLAY_DIR="$S/rp" VERIF_REPO="$S/repo" VERIF_SCRATCH="$S/build" ${VERIF_HOME:-/verif}/check "$PROP" "$TIER" > "$S/check.log" 2>&1; RC=$?
grep -E "^VIOLATION|^  sig:" "$S/check.log" | head -8 | cut -c1-200
tail -1 "$S/check.log" | cut -c1-160
echo "tests=$T check_rc=$RC prop=$PROP tier=$TIER diff=$(basename "$DIFF")"
