#!/usr/bin/env python3
# Regenerates MANIFEST.json from the table below (kept in one place so that it stays valid).
import json, subprocess
HOOK_COMMITS = subprocess.run(["git","-C","/repo","log","--format=%h","--grep=^verif hooks"],capture_output=True,text=True).stdout.split()
checks = {
 "C01": ("exploration", "seeded simulation of real client/server pairs vs. independent negotiation model",
   "Seeded search over configuration pairs (both stacks) under the vs kernel: every run executes two unmodified (source-instrumented) endpoints over a simulated reliable transport with seeded segmentation and task interleaving, and compares completion, negotiated version/suite/ALPN/resumption flag, peer-certificate lists and an echo in both directions with an independent negotiation model. Exploration is the right level: the configuration space is a large product that is sampled (3 000 quick / 500 000 thorough pairs), not enumerated.",
   "Trusted: the negotiation model (written from the Config/ClientAuthType documentation and the property text); the static PKI judged at 2030-01-01; vsinstr's rewriting only adds pre-emption points; applications close a connection whose handshake failed.", "5/C01"),
 "C04": ("exploration", "passive wire monitor re-deriving key schedule, Finished values and record protection from captured bytes (independent reference implementation) over seeded full+resumed handshakes of real endpoints",
   "Every run executes real client and server (both stacks, four suites, with/without client authentication, full then resumed) with random application writes; a monitor that shares no code with gotlcp recomputes pre-master (SM2 decryption, or SM2 key agreement through the harness-owned SM2KeyAgreement seam on alternating sides), master secret, key block, both Finished values and opens every protected record of each direction with that direction's own key, checks nonce/IV uniqueness, the pre-master version bytes and the cached master secrets. Exploration (sampled sizes/configurations).",
   "Trusted: package ref as a correct reading of GB/T 38636 6.5 and the record formats; gmsm primitives (shared); hooks VerifFinished/VerifSession are read-only.", "5/C04"),
 "C05": ("fault_enumeration", "enumerated single record faults (every byte position x 3 masks, drop/dup/swap/cut/truncate/inject) by a record-aware man in the middle on real endpoints after a clean handshake",
   "Enumerates the single-fault space on small application records completely for both cipher modes and both directions (quick), adding large records, ECDHE suites, every record index and seeded multi-fault plans (thorough). Oracle: delivered bytes are exactly the records before the first damaged one, then an error (never a clean EOF except for a cut on a record boundary), later reads keep failing, CBC ciphertext damage is answered with bad_record_mac (alert opened by the monitor).",
   "Trusted: one Write <= 1024 bytes = one record (checked on the wire); package ref for opening the alert.", "5/C05"),
 "C06": ("exploration", "seeded write-size / segmentation / read-buffer workloads on real endpoints with a wire monitor for record limits",
   "Seeded workloads around the record-size boundaries with transport segmentation down to one byte per read and read buffers from 1 byte; client writes, half-closes, server reads to EOF, writes, closes. Oracle: writes report full length, concatenated reads equal concatenated writes then io.EOF, every record opened by the monitor has <= 16384 plaintext and <= 16384+2048 ciphertext bytes.",
   "Trusted: package ref (validated by C04); reliable unbounded transport.", "5/C06"),
 "C13": ("exploration", "seeded schedules of several caller tasks on one connection under the vs kernel, race detector as oracle (scheduler hand-over invisible to it)",
   "Race build. 2-8 tasks use ONE connection (tlcp, dtlcp ReadFrom/WriteTo, pa adapter) while the kernel decides every pre-emption at every mutex/atomic/transport operation; scenarios: established, first use racing with the handshake, Close racing with in-flight calls, pa first use. Oracle: no race report, no deadlock, same Handshake result for all callers, every successful Write whole and exactly once at the peer (multi-record writes included), inbound frames delivered exactly once across concurrent readers, Close unblocks everything, second Close reports closed.",
   "Trusted: pre-emption only at instrumented points (code between them is atomic in the simulation; the race detector still sees every access); bounded race-detector history.", "5/C13"),
 "C02": ("fault_enumeration", "enumerated impostor catalogue played by a scripted (Byzantine) server on an independent reference implementation against a real client",
   "Enumerates the catalogue of the property (24 impostors incl. two honest controls, mixed trusted/untrusted pair on resumption, host-name certificate against an IP literal, ServerKeyExchange signed with the encryption key, certificates expired only at the configured time, configured clock moved past the certificates' end after an earlier success) x 4 suites x InsecureSkipVerify on/off x both stacks; thorough repeats under 200 seeds. The scripted server keeps transcript and keys consistent, so only the client's own checks can stop it. Oracle: client Handshake fails, HandshakeComplete stays false and Read delivers nothing for every impostor; honest controls complete and exchange data.",
   "Trusted: scripted peer honest where it says so (validated by the controls); static PKI.", "5/C02"),
 "C07": ("fault_enumeration", "enumerated policy x behaviour table (full and resumed) played by a scripted client against a real server",
   "6 policies x 11 client behaviours (incl. leading with the encryption certificate and omitting CertificateVerify, certificates expired / in date only at the configured time, which differs from the wall clock); after every refused handshake its session id is offered again and must not be resumed x 4 suites x both stacks on full handshakes, and (original policy x policy in force x behaviour) on resumed handshakes across configurations sharing the cache. Oracle: model of the ClientAuthType documentation; additionally peer certificates / verified chains reported by the server must be backed by what was checked.",
   "Trusted: the policy model; scripted client validated by the cases the model allows.", "5/C07"),
 "C08": ("exploration", "all single edits (thorough: + double edits) of every legal message flow, sent by a scripted peer that keeps its transcript and keys consistent",
   "For each role, flow and stack: the legal flow plus every omission, repetition, adjacent transposition and insertion of any kind of the alphabet at any position, and 16/17 warning alerts. Oracle: completes iff a prefix of what was delivered (tolerated warning alerts removed) is exactly a legal flow.",
   "Trusted: the language of legal flows as in the property statement; ECDHE needs CertificateRequest.", "5/C08"),
 "C09": ("exploration", "seeded hostile-peer search (message mutations at every handshake state, garbage records, foreign key types, post-handshake floods) against real endpoints with panic / watchdog / buffer-bound oracles",
   "An otherwise honest scripted peer deviates once per run (truncate / extend / flip / overwrite length-looking bytes / replace by 0-8 bytes any handshake message; raw or record-shaped garbage after k honest messages; certificates with RSA, P-256, Ed25519 keys; floods after completion incl. huge fragment announcements and many message sequence numbers on DTLCP). Oracle: no recovered panic, every task yields within the wall-clock watchdog (confirmed by re-execution in a fresh process), the run ends or blocks for input within the step budget, hook-reported buffers stay within the stated bounds. 12 000 quick / 300 000 thorough hostile runs.",
   "Trusted: memory = what the read-only hooks report; watchdog expiry only counts when it reproduces.", "5/C09"),
 "C18": ("fault_enumeration", "enumerated hostile ClientHello / cookie behaviours from chosen source addresses against real DTLCP servers with counting key wrappers",
   "Cookie-less hellos (repeated), a valid cookie with every covered field changed, every single-byte change / truncation / extension of the cookie, replay from another address and to another server connection (same, different and per-connection random secret), positive controls; configured secret or none; ECC and ECDHE. Oracle: exactly one HelloVerifyRequest (not larger than the request) per rejected hello, no flight 4, zero private-key operations before a valid cookie, cookie valid only for the exact (address, parameters, secret).",
   "Trusted: key use is observed through wrappers on the crypto.Signer/Decrypter/SM2KeyAgreement seam.", "5/C18"),
 "C19": ("fault_enumeration", "all k<=2 (thorough: + seeded k=3) plans of drop / duplicate / short delay / long delay over the named datagrams of the DTLCP handshake under virtual time, with reduction of failing plans to minimal causes",
   "Real client and server on a simulated datagram network under the vs kernel's virtual clock; faults address datagrams by what they carry (CH0, HVR, CH1, F4, F5a, F5b, F6, F4r) and occurrence. Oracle: both complete within initial_timeout*(2^k-1)+slack, agree, echo works, and no timer expires in the fault-free run. Failing plans are reduced (singles, pairs, stale-copy test) to canonical signatures; the genuine retransmission defects that remain are listed in known_findings.json and printed as KNOWN-FINDING.",
   "Trusted: default timer values; virtual time advances only when every task is blocked.", "5/C19"),
 "C15": ("exploration", "seeded (path MTU x suite x payload size) workloads on real DTLCP endpoints with every datagram captured and measured, including retransmitted flights provoked by injected loss",
   "Path MTU drawn independently per side from 200 to above the record limit, payload sizes around the exact maximum payload computed from the record format by the reference implementation, WriteTo/ReadFrom and Write/Read, 0-2 injected losses of handshake datagrams whose retransmission works. Oracle: every datagram handed to the PacketConn <= sender's MTU, records <= 16384 plaintext, one WriteTo = one datagram = one ReadFrom payload, large writes complete and in order. Two genuine defects remain and are printed as KNOWN-FINDING (whole flight in one datagram; empty payload not sent).",
   "Trusted: maximum payload as computed by package ref.", "5/C15"),
 "C16": ("exploration", "seeded delivery histories (reorder, duplicate, replay, gaps, forgeries) injected by the simulated network into an established real DTLCP connection, judged by a set-based reference model",
   "The network holds back N genuine records and delivers a seeded sequence with duplicates, old replays, forged variants (bit flips, wrong epoch, rewritten sequence number, garbage) and sequences built around the window edge; ReplayWindow default and 32..160, GCM and CBC, ReadFrom and Read. Oracle: delivered payloads were sent, none twice, forgeries never delivered and without effect, genuine first arrivals inside max(32,min(cfg,64)) or newer are delivered. Plus model comparison of the window object through the hook.",
   "Trusted: the set model of the effective window as stated in the property.", "5/C16"),
 "C17": ("exploration", "seeded path-MTU pairs on real endpoints (monitor recomputes Finished over unfragmented messages) and Byzantine fragment sets from a scripted peer, plus model comparison of the reassembly buffer",
   "pmtu mode: independent MTUs 100..2000 on both sides, completion/agreement/echo and monitor-derived Finished independent of the MTUs. frag mode: a scripted peer cuts one message into random partitions in arbitrary order with overlaps and duplicates (must complete), with a gap (must not), with fragments beyond the announced length and with conflicting lengths; pending fragment state bounded. Late duplicate fragments are a KNOWN-FINDING.",
   "Trusted: MTU below 100 need not work; rejecting = failing the handshake is acceptable for out-of-range/conflicting fragments.", "5/C17"),
 "C11": ("exploration", "seeded operation sequences against a reference LRU (with aliasing and a master-secret integrity probe), concurrent histories under the vs kernel checked with porcupine (race build), and connection histories through tiny caches",
   "seq: store/delete/lookup sequences over 5 keys, capacities 1..4 (and larger), compared with a reference LRU after every operation plus a hook-based probe that no session reachable under a key was wiped. conc: 3-4 tasks on one cache, kernel-chosen pre-emption at the cache mutex, porcupine linearizability check, race detector. conn: honest connection histories through client/server caches of capacity 1..3 must all succeed.",
   "Trusted: the reference LRU semantics stated in the evidence; porcupine Unknown = infrastructure error.", "5/C11"),
 "C10": ("exploration", "seeded histories of connections, restarts, reconfigurations, forged ids and ruined handshakes over one client and several real servers, judged by a reference model of the caches",
   "Each history mixes connects (handshake+echo), server cache loss, client/server suite changes, a scripted client offering a forged id, and handshakes ruined by a transport cut; with/without client certificates; both stacks. Oracle: DidResume on both sides equals the model's prediction, every honest connection succeeds (transparent fallback), resumed connections keep the peer identity and have fresh randoms/Finished, session ids are 32 bytes and unique, a session offered in a failed handshake is not offered again (checked on the wire).",
   "Trusted: the cache model (large capacities); negotiation model of C01.", "5/C10"),
 "C12": ("exploration", "seeded API histories on the stream stack: transport cuts at drawn byte offsets, protected alerts of every level from a scripted peer, early application data, context cancellation at drawn handshake steps, and Close/CloseWrite/Read/Write/Handshake sequences, judged by a per-end state machine",
   "cut: writer sends N records then closes / half-closes / does nothing while the transport ends before or inside a drawn record; alert: scripted peer sends protected alerts (levels 0,1,2,3,255; many descriptions; runs of 16/17); early-app; cancel (the library's interrupter goroutine is the one unmanaged goroutine: its transport Close is awaited as an external event); api sequences incl. before the handshake. Oracle: prefix of whole records, EOF only on close_notify or boundary cut, ErrUnexpectedEOF inside a record, errors latched, nothing delivered after Close/failure, second Close = net.ErrClosed, Write after CloseWrite fails, cancelled handshake returns context.Canceled.",
   "Trusted: Write after a RECEIVED fatal alert is not judged (see assumptions in the evidence).", "5/C12"),
 "C03": ("fault_enumeration", "single-fault enumeration (stratified / every byte position, drop, duplicate, swap, truncate, inject) by a man in the middle on the handshake of two real endpoints, compared with an untampered baseline run of the same seeds",
   "Stream stack: record-aware MITM flips every (thorough) or a stratified sample (quick) of byte positions of every handshake record with three masks, drops / duplicates / swaps / truncates records and injects records of every content type; datagram stack: corrupt / drop / duplicate / delay / truncate datagrams under virtual time; full and resumed, four suites, with and without client authentication; seeded multi-fault plans in thorough. Oracle: no panic; both endpoints complete only with identical views equal to the baseline (version, suite, ALPN, resumption, session id, peer certificates, recorded Finished values) and, on the stream stack, only if the handshake/CCS payload delivered equals the payload sent.",
   "Trusted: record headers are exempt (property text); baseline and attack runs share all seeds.", "5/C03"),
 "C20": ("exploration", "seeded (first-record header x segmentation x early disconnect x configuration x read-buffer size) cases through pa.NewListener with real tlcp and crypto/tls clients and raw header writers",
   "All 256 major version bytes via raw writers that stop after 0..12 bytes, real tlcp and crypto/tls clients with handshake and echo through the adapter, TLCP-only / TLS-only / dual configuration, transport segmentation down to one byte, application read buffers from 1 byte, first operation Read or Write. Oracle: routing by major byte, the exact unsupported-protocol / configuration errors, no byte lost, same negotiated state as directly, error (no hang, no panic) on early disconnect.",
   "Trusted: crypto/tls runs as real code with one task per connection.", "5/C20"),
}
not_applicable = {
 "C14": "pure function of its input (marshal/unmarshal): no schedule, clock, transport, peer or history enters; input generation is not a simulation target (DESIGN.md section 7). What the simulator sees of the codec is covered under C03/C04/C09.",
}
ALL = ["C%02d"%i for i in range(1,21)]
m = {
 "version": 1,
 "setup_cmd": "./check build",
 "hooks": {
   "guard": "verif (Go build tag)",
   "enable": "go build -tags verif on a scratch copy of /repo that ./check rewrites with sim/cmd/vsinstr (mutex/atomic/time calls redirected to the vs kernel); /repo itself only carries tlcp/verif_hooks.go and dtlcp/verif_hooks.go behind the tag",
   "baseline_off_cmd": "cd /repo && go test -vet=off -count=1 -timeout 25m ./...",
   "source_commits": HOOK_COMMITS,
   "add_only": True,
 },
 "engines": [
   {"name": "vs+simcheck", "path": "sim/", "serves_properties": sorted(checks), "kind_free_text": "deterministic simulation: cooperative task kernel (one real goroutine at a time, futex hand-over invisible to the race detector, virtual clock), source instrumenter, simulated stream/datagram transports with fault plans, seeded choice tape = replay file, tape minimisation"},
 ],
 "checks": [],
 "not_applicable": [],
 "notes": "Exit codes of ./check: 0 held (possibly with KNOWN-FINDING lines), 1 VIOLATION, 2 infrastructure trouble. VERIF_SEED selects the seed. Known findings: known_findings.json (read-only at run time).",
}
for pid in sorted(checks):
    lvl, tech, text, note, ref = checks[pid]
    m["checks"].append({
      "property_id": pid,
      "quick_cmd": "./check %s quick" % pid,
      "thorough_cmd": "./check %s thorough" % pid,
      "evidence_file": "evidence/%s.json" % pid,
      "replay_cmd_template": "./check %s replay {path}" % pid,
      "engine": "vs+simcheck",
      "level_claimed": {"category": lvl, "text": text, "design_ref": ref},
      "level_note": note,
      "technique": "deterministic simulation with fault injection: " + tech,
    })
for pid in ALL:
    if pid in checks: continue
    m["not_applicable"].append({"property_id": pid, "reason": not_applicable.get(pid, "check not built yet in this session (planned in DESIGN.md section 5); not claimed until it exists and has been validated")})
json.dump(m, open("/verif/MANIFEST.json","w"), indent=1, ensure_ascii=False)
print("MANIFEST.json:", len(m["checks"]), "checks;", len(m["not_applicable"]), "not claimed")
