#!/usr/bin/env python3
# Regenerates MANIFEST.json from the table below (kept in one place so that it stays valid).
import json, subprocess
HOOK_COMMITS = subprocess.run(["git","-C","/repo","log","--format=%h","--grep=^verif hooks"],capture_output=True,text=True).stdout.split()
checks = {
 "C01": ("exploration", "seeded simulation of real client/server pairs vs. independent negotiation model",
   "Seeded search over configuration pairs (both stacks) under the vs kernel: every run executes two unmodified (source-instrumented) endpoints over a simulated reliable transport with seeded segmentation and task interleaving, and compares completion, negotiated version/suite/ALPN/resumption flag, peer-certificate lists and an echo in both directions with an independent negotiation model. Exploration is the right level: the configuration space is a large product that is sampled (3 000 quick / 500 000 thorough pairs), not enumerated.",
   "Trusted: the negotiation model (written from the Config/ClientAuthType documentation and the property text); the static PKI judged at 2030-01-01; vsinstr's rewriting only adds pre-emption points; applications close a connection whose handshake failed.", "5/C01"),
}
not_applicable = {
 "C14": "pure function of its input (marshal/unmarshal): no schedule, clock, transport, peer or history enters; input generation is not a simulation target (DESIGN.md section 7). What the simulator sees of the codec is covered under C03/C04/C09.",
}
ALL = ["C%02d"%i for i in range(1,21)]
m = {
 "version": 1,
 "setup_cmd": "./check build",
 "hooks": {
   "guard": "verif (Go build tag)",
   "enable": "go build -tags verif on a scratch copy of /repo that ./check rewrites with sim/cmd/vsinstr (mutex/atomic/time calls redirected to the vs kernel); /repo itself only carries tlcp/verif_hooks.go and dtlcp/verif_hooks.go behind the tag",
   "baseline_off_cmd": "cd /repo && go test -vet=off -count=1 -timeout 25m ./...",
   "source_commits": HOOK_COMMITS,
   "add_only": True,
 },
 "engines": [
   {"name": "vs+simcheck", "path": "sim/", "serves_properties": sorted(checks), "kind_free_text": "deterministic simulation: cooperative task kernel (one real goroutine at a time, futex hand-over invisible to the race detector, virtual clock), source instrumenter, simulated stream/datagram transports with fault plans, seeded choice tape = replay file, tape minimisation"},
 ],
 "checks": [],
 "not_applicable": [],
 "notes": "Exit codes of ./check: 0 held (possibly with KNOWN-FINDING lines), 1 VIOLATION, 2 infrastructure trouble. VERIF_SEED selects the seed. Known findings: known_findings.json (read-only at run time).",
}
for pid in sorted(checks):
    lvl, tech, text, note, ref = checks[pid]
    m["checks"].append({
      "property_id": pid,
      "quick_cmd": "./check %s quick" % pid,
      "thorough_cmd": "./check %s thorough" % pid,
      "evidence_file": "evidence/%s.json" % pid,
      "replay_cmd_template": "./check %s replay {path}" % pid,
      "engine": "vs+simcheck",
      "level_claimed": {"category": lvl, "text": text, "design_ref": ref},
      "level_note": note,
      "technique": "deterministic simulation with fault injection: " + tech,
    })
for pid in ALL:
    if pid in checks: continue
    m["not_applicable"].append({"property_id": pid, "reason": not_applicable.get(pid, "check not built yet in this session (planned in DESIGN.md section 5); not claimed until it exists and has been validated")})
json.dump(m, open("/verif/MANIFEST.json","w"), indent=1, ensure_ascii=False)
print("MANIFEST.json:", len(m["checks"]), "checks;", len(m["not_applicable"]), "not claimed")
