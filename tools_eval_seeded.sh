#!/bin/bash
# tools_eval_seeded.sh <seeded-dir>... : run the registered check of the property (quick, then thorough if
# quick is silent) against each seeded change, on a scratch copy of /repo. Prints one line per change.
cd ${VERIF_HOME:-/verif}
for sd in "$@"; do
  id=$(basename $sd | cut -d- -f1); d=$sd/patch.diff
  case "$id" in fix) id=$(python3 -c "import json,sys;print(json.load(open('$sd/meta.json'))['property'].split()[0].strip(','))");; esac
  [ -f "$d" ] || continue
  out=$(SKIP_TESTS=1 ./tools_try_mutant.sh "$d" $id quick 2>&1)
  rc=$(echo "$out" | grep -o "check_rc=[0-9]*" | cut -d= -f2); tier=quick
  if [ "$rc" = "0" ] && [ "${QUICK_ONLY:-}" != 1 ]; then
    out=$(SKIP_TESTS=1 ./tools_try_mutant.sh "$d" $id thorough 2>&1)
    rc=$(echo "$out" | grep -o "check_rc=[0-9]*" | cut -d= -f2); tier=thorough
  fi
  sig=$(echo "$out" | grep "sig:" | head -3 | sed 's/^ *sig: //' | paste -sd';' | cut -c1-260)
  echo "$(basename $sd) caught_rc=$rc tier=$tier | $sig"
done
